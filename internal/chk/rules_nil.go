package chk

import (
	"fmt"
	"go/token"
	"go/types"
	"strings"

	"golang.org/x/tools/go/ssa"
)

// PANIC.nil — F5 nil facts, restricted to the four constructs that can panic on nil in mxj:
//  (1) MapUpdate on a map value that may be the nil map (a phi with a nil edge, or a zero variable);
//  (2) dereference of a pointer returned by a module function that has a nil-returning path, or of a package-level pointer;
//  (3) method call on an error value not known to be non-nil;
//  (4) call of a package-level function variable not known to be non-nil.

func rulePanicNil(p *Prog, r *Report, fns []*ssa.Function) {
	const rule = "PANIC.nil"
	for _, fn := range fns {
		name := p.Name(fn)
		cz := p.canonFor(fn)
		ord := newOrdinals()
		for _, in := range instrsByPos(fn) {
			switch x := in.(type) {
			case *ssa.MapUpdate:
				src := "map write " + typeStr(x.Map.Type())
				if ph, ok := x.Map.(*ssa.Phi); ok && ph.Comment != "" {
					src = "map write " + ph.Comment + "[...]"
				} else if n := localName(x.Map); n != "" {
					src = "map write " + n + "[...]"
				}
				construct := ord.key(name, src)
				ok, why := p.mapNonNil(fn, cz, x.Map, in)
				switch {
				case ok && strings.HasPrefix(why, "assumed:"):
					r.Assume(rule, name, construct, p.Pos(in.Pos()), strings.TrimPrefix(why, "assumed:"))
				case ok:
					r.OK(rule, name, construct, p.Pos(in.Pos()), why)
				default:
					if prem := p.tokenNestingPremise(fn, in); prem != "" {
						r.Assume(rule, name, construct, p.Pos(in.Pos()), prem)
					} else {
						r.Bad(rule, name, construct, p.Pos(in.Pos()), "the map may be nil here: "+why)
					}
				}
			case *ssa.UnOp:
				if x.Op != token.MUL {
					continue
				}
				ok, why, relevant := p.derefNonNil(fn, cz, x)
				if !relevant {
					continue
				}
				construct := ord.key(name, "deref "+derefName(x.X))
				if ok {
					r.OK(rule, name, construct, p.Pos(in.Pos()), why)
				} else {
					r.Bad(rule, name, construct, p.Pos(in.Pos()), why)
				}
			case ssa.CallInstruction:
				c := x.Common()
				if c.IsInvoke() && isErrorType(c.Value.Type()) {
					construct := ord.key(name, "method call on error "+c.Method.Name())
					if nonNilValue(c.Value) || guardedNonNil(cz, c.Value, in.Block()) {
						r.OK(rule, name, construct, p.Pos(in.Pos()), "dominated by a != nil test of the same value (or the value is a fresh error)")
					} else {
						r.Bad(rule, name, construct, p.Pos(in.Pos()), "method called on an error value that may be nil")
					}
				}
				if g := globalOf(c.Value); g != nil && !c.IsInvoke() {
					construct := ord.key(name, "call of "+g.Name())
					if guardedNonNil(cz, c.Value, in.Block()) {
						r.OK(rule, name, construct, p.Pos(in.Pos()), "dominated by "+g.Name()+" != nil")
					} else {
						r.Bad(rule, name, construct, p.Pos(in.Pos()), "package-level function variable "+g.Name()+" is called without a dominating nil test")
					}
				}
			}
		}
	}
}

func isBoolType(t types.Type) bool {
	b, ok := t.Underlying().(*types.Basic)
	return ok && b.Info()&types.IsBoolean != 0
}

func localName(v ssa.Value) string {
	switch x := v.(type) {
	case *ssa.Phi:
		return x.Comment
	case *ssa.Parameter:
		return x.Name()
	case *ssa.MakeMap:
		return ""
	}
	return ""
}

func derefName(v ssa.Value) string {
	switch x := v.(type) {
	case *ssa.Extract:
		if c, ok := x.Tuple.(*ssa.Call); ok {
			if g := staticCallee(&c.Call); g != nil {
				return fmt.Sprintf("result #%d of %s", x.Index, g.Name())
			}
		}
	case *ssa.FieldAddr:
		return derefName(x.X) + "." + fieldName(x.X.Type(), x.Field)
	case *ssa.UnOp:
		if g := globalOf(x); g != nil {
			return g.Name()
		}
	case *ssa.Phi:
		return x.Comment
	}
	return v.Name()
}

func nonNilValue(v ssa.Value) bool {
	switch x := v.(type) {
	case *ssa.Call:
		return isCallTo(&x.Call, "errors.New", "fmt.Errorf")
	case *ssa.MakeInterface:
		return true
	}
	return false
}

// guardedNonNil: blk is dominated by the non-nil edge of a test `v != nil` (canonically equal operand).
func guardedNonNil(cz *canonizer, v ssa.Value, blk *ssa.BasicBlock) bool {
	want := cz.of(v)
	for _, g := range expandAndGuards(dominatingGuards(blk)) {
		ng := normGuard(g)
		bo, ok := ng.Cond.(*ssa.BinOp)
		if !ok || (bo.Op != token.EQL && bo.Op != token.NEQ) {
			continue
		}
		var other, side ssa.Value
		if isNilConst(bo.Y) {
			side, other = bo.X, bo.Y
		} else if isNilConst(bo.X) {
			side, other = bo.Y, bo.X
		} else {
			continue
		}
		_ = other
		if cz.of(side) != want && !sameThroughPhi(side, v) && !sameThroughPhi(v, side) {
			continue
		}
		nonNil := (bo.Op == token.NEQ) == ng.Pol
		if nonNil {
			return true
		}
	}
	return false
}

// mapNonNil decides whether the map operand of a MapUpdate is certainly non-nil at the instruction.
func (p *Prog) mapNonNil(fn *ssa.Function, cz *canonizer, m ssa.Value, at ssa.Instruction) (bool, string) {
	seen := map[ssa.Value]bool{}
	var rec func(v ssa.Value, at ssa.Instruction) (bool, string)
	rec = func(v ssa.Value, at ssa.Instruction) (bool, string) {
		if seen[v] {
			return true, "cyclic phi"
		}
		seen[v] = true
		switch x := v.(type) {
		case *ssa.MakeMap:
			return true, "freshly made map"
		case *ssa.ChangeType:
			return rec(x.X, at)
		case *ssa.TypeAssert:
			return true, "obtained by a type assertion from an interface value (A-typednil: JSON/XML-shaped Maps hold no typed-nil containers)"
		case *ssa.Extract:
			if ta, ok := x.Tuple.(*ssa.TypeAssert); ok && x.Index == 0 {
				// v, ok := i.(map...): non-nil only under ok
				for _, g := range dominatingGuards(at.Block()) {
					ng := normGuard(g)
					if ex, ok := ng.Cond.(*ssa.Extract); ok && ex.Tuple == ssa.Value(ta) && ex.Index == 1 && ng.Pol {
						return true, "comma-ok assertion under ok"
					}
				}
				return false, "comma-ok assertion result used without the ok test"
			}
			if c, ok := x.Tuple.(*ssa.Call); ok {
				if g := staticCallee(&c.Call); g != nil && p.InModule(g) {
					if p.resultNeverNilMap(g, x.Index) {
						return true, "result of " + p.Name(g) + ", which returns a made map on every path reaching here"
					}
					// nil result only together with a non-nil error?
					if ev := errResult(c); ev != nil && p.nilOnlyWithError(g, x.Index) && errCheckedBefore(ev, at.Block()) {
						return true, "result of " + p.Name(g) + " under err == nil (nil is returned only together with an error)"
					}
				}
			}
			return false, "value of unknown origin"
		case *ssa.Call:
			// single-result call of a module function that returns a non-nil map on every path
			if g := staticCallee(&x.Call); g != nil && p.InModule(g) && len(g.Blocks) > 0 && g.Signature.Results().Len() == 1 {
				if p.resultNeverNilMap(g, 0) {
					return true, "result of " + p.Name(g) + ", which returns a non-nil map on every path"
				}
			}
			return false, "value of unknown origin"
		case *ssa.Parameter:
			if fn.Signature.Recv() != nil && x == fn.Params[0] || p.Exported(fn) {
				return true, "assumed:receiver/argument map supplied by the caller is non-nil (writing into a nil Map is the caller's error)"
			}
			// unexported function: every call site must pass a non-nil map (coinductive over recursion)
			idx := -1
			for i, prm := range fn.Params {
				if prm == x {
					idx = i
				}
			}
			pkey := fmt.Sprintf("nilparam:%p:%d", fn, idx)
			if st, ok := p.facts[pkey]; ok {
				if st.(string) == "busy" || st.(string) == "ok" {
					return true, "every call site passes a non-nil map"
				}
				return false, st.(string)
			}
			p.facts[pkey] = "busy"
			defer func() {
				if p.facts[pkey] == "busy" {
					p.facts[pkey] = "ok"
				}
			}()
			for _, site := range p.CG().sites[fn] {
				if idx >= len(site.Common().Args) {
					return false, "call site not resolved"
				}
				caller := site.Parent()
				ok, _ := p.mapNonNil(caller, p.canonFor(caller), site.Common().Args[idx], site.(ssa.Instruction))
				if !ok {
					p.facts[pkey] = "a caller (" + p.Name(caller) + ") may pass a nil map"
					return false, "a caller (" + p.Name(caller) + ") may pass a nil map"
				}
			}
			return true, "every call site passes a non-nil map"
		case *ssa.UnOp:
			if x.Op == token.MUL {
				// load of a local variable / through a pointer parameter: all stores must be non-nil maps
				if a := rootAlloc(x.X); a != nil {
					okAll := true
					n := 0
					eachInstr(fn, func(b *ssa.BasicBlock, in ssa.Instruction) {
						if st, ok := in.(*ssa.Store); ok && st.Addr == x.X {
							n++
							if ok2, _ := rec(st.Val, in); !ok2 {
								okAll = false
							}
						}
					})
					if okAll && n > 0 {
						return true, "local variable always assigned a non-nil map"
					}
					return false, "local variable may hold its zero value"
				}
				if prm, ok := x.X.(*ssa.Parameter); ok {
					// *n with n a pointer parameter of an unexported function: callers pass the address of a made map
					okAll := len(p.CG().sites[fn]) > 0 && !p.Exported(fn)
					idx := -1
					for i, q := range fn.Params {
						if q == prm {
							idx = i
						}
					}
					for _, site := range p.CG().sites[fn] {
						caller := site.Parent()
						arg := site.Common().Args[idx]
						a, isA := arg.(*ssa.Alloc)
						if !isA {
							okAll = false
							continue
						}
						eachInstr(caller, func(b *ssa.BasicBlock, in ssa.Instruction) {
							if st, ok := in.(*ssa.Store); ok && st.Addr == ssa.Value(a) {
								if _, isMk := st.Val.(*ssa.MakeMap); !isMk {
									okAll = false
								}
							}
						})
					}
					if okAll {
						return true, "pointer parameter: every caller passes the address of a variable holding a made map"
					}
				}
			}
			return false, "loaded from memory of unknown content"
		case *ssa.Lookup, *ssa.Index:
			return false, "element of a container"
		case *ssa.Const:
			return false, "nil map constant"
		case *ssa.Phi:
			// all edges non-nil, or a dominating guard implies the non-nil edges
			allOK := true
			var nilEdges, okEdges []int
			for i, e := range x.Edges {
				if isNilConst(e) {
					nilEdges = append(nilEdges, i)
					allOK = false
					continue
				}
				// m, ok := v.(map…); if !ok { m = make… }: the asserted value flows in over the ok edge of its own test
				edgeOK := false
				if ex, isEx := e.(*ssa.Extract); isEx && ex.Index == 0 {
					if ta, isTA := ex.Tuple.(*ssa.TypeAssert); isTA && ta.CommaOk {
						pred := x.Block().Preds[i]
						if ifi, isIf := pred.Instrs[len(pred.Instrs)-1].(*ssa.If); isIf && pred.Succs[0] != pred.Succs[1] {
							ng := normGuard(guard{ifi.Cond, pred.Succs[0] == x.Block()})
							if okx, isOk := ng.Cond.(*ssa.Extract); isOk && okx.Tuple == ssa.Value(ta) && okx.Index == 1 && ng.Pol {
								edgeOK = true
							}
						}
					}
				}
				if edgeOK {
					okEdges = append(okEdges, i)
				} else if ok, _ := rec(e, x.Block().Preds[i].Instrs[len(x.Block().Preds[i].Instrs)-1]); ok {
					okEdges = append(okEdges, i)
				} else {
					allOK = false
					nilEdges = append(nilEdges, i)
				}
			}
			if allOK {
				return true, "every incoming value is a non-nil map"
			}
			if ok, why := p.gatedNonNil(fn, cz, x, okEdges, at); ok {
				return true, why
			}
			// found-flag pairing: each possibly-nil incoming value arrives over an edge on which a flag is known true, and flag => non-nil
			pairedAll := len(nilEdges) > 0
			for _, i := range nilEdges {
				e := x.Edges[i]
				if isNilConst(e) {
					pairedAll = false
					break
				}
				pred := x.Block().Preds[i]
				found := false
				gs := dominatingGuards(pred)
				// the edge pred -> block itself
				if ifi, ok := pred.Instrs[len(pred.Instrs)-1].(*ssa.If); ok {
					gs = append(gs, guard{ifi.Cond, succIndex(pred, x.Block(), i) == 0})
				}
				for _, g := range gs {
					ng := normGuard(g)
					if ng.Pol && isBoolType(ng.Cond.Type()) {
						if _, isPhi := ng.Cond.(*ssa.Phi); isPhi && p.flagImplies(fn, cz, ng.Cond, e, map[[2]ssa.Value]bool{}) {
							found = true
						}
					}
				}
				if !found {
					pairedAll = false
				}
			}
			if pairedAll {
				return true, "found-flag pairing: the possibly-nil value arrives only where a flag is true, and the flag is set only together with a non-nil assignment"
			}
			return false, "variable " + x.Comment + " is nil on some incoming path and no dominating test excludes it"
		}
		return false, "value of unknown origin"
	}
	return rec(m, at)
}

// gatedNonNil: phi M = φ(non-nil if C, nil otherwise). M is non-nil at `at` if a dominating guard is
//
//	(a) len(M) > 0 / M != nil, (b) the gating condition C itself with the polarity of a non-nil edge,
//	(c) x == "non-empty constant" when C is x != "" (and similar string implications),
//	(d) N != nil for another phi N of the same block whose nil edges are a superset... (same gating).
func (p *Prog) gatedNonNil(fn *ssa.Function, cz *canonizer, m *ssa.Phi, okEdges []int, at ssa.Instruction) (bool, string) {
	if ok, why := p.guardsImplyNonNil(fn, cz, m, okEdges, dominatingGuards(at.Block())); ok {
		return true, why
	}
	// disjunctive entry: every edge into the block (recursively, a few levels) carries a condition that implies non-nil
	var rec func(b *ssa.BasicBlock, depth int, seen map[*ssa.BasicBlock]bool) bool
	rec = func(b *ssa.BasicBlock, depth int, seen map[*ssa.BasicBlock]bool) bool {
		if ok, _ := p.guardsImplyNonNil(fn, cz, m, okEdges, dominatingGuards(b)); ok {
			return true
		}
		if depth > 4 || seen[b] || len(b.Preds) == 0 || b == m.Block() {
			return false
		}
		seen[b] = true
		for i, pr := range b.Preds {
			var gs []guard
			if ifi, ok := pr.Instrs[len(pr.Instrs)-1].(*ssa.If); ok {
				gs = append(gs, guard{ifi.Cond, succIndex(pr, b, i) == 0})
			}
			if ok, _ := p.guardsImplyNonNil(fn, cz, m, okEdges, gs); ok {
				continue
			}
			if !rec(pr, depth+1, seen) {
				return false
			}
		}
		return true
	}
	if rec(at.Block(), 0, map[*ssa.BasicBlock]bool{}) {
		return true, "every edge into the block carries a condition that excludes the nil case (len > 0, or the condition under which " + m.Comment + " was made)"
	}
	return false, ""
}

// phiGuardCases: the ways a boolean phi can have the value pol — for every incoming edge that can deliver pol, what is known on
// that edge: the guards dominating the predecessor, the branch taken from it into the phi's block, and the incoming value itself
// when it is not a constant. (`a || b` used as a value is such a phi.)
func phiGuardCases(ph *ssa.Phi, pol bool) [][]guard {
	var out [][]guard
	blk := ph.Block()
	for i, e := range ph.Edges {
		if b, isC := constBool(e); isC && b != pol {
			continue
		}
		pred := blk.Preds[i]
		gs := dominatingGuards(pred)
		if ifi, ok := pred.Instrs[len(pred.Instrs)-1].(*ssa.If); ok {
			gs = append(gs, guard{ifi.Cond, succIndex(pred, blk, i) == 0})
		}
		if _, isC := e.(*ssa.Const); !isC {
			gs = append(gs, guard{e, pol})
		}
		out = append(out, gs)
	}
	return out
}

func (p *Prog) guardsImplyNonNil(fn *ssa.Function, cz *canonizer, m *ssa.Phi, okEdges []int, guards []guard) (bool, string) {
	return p.guardsImplyNonNilD(fn, cz, m, okEdges, guards, 0)
}

func (p *Prog) guardsImplyNonNilD(fn *ssa.Function, cz *canonizer, m *ssa.Phi, okEdges []int, guards []guard, depth int) (bool, string) {
	// a guard that is itself a boolean merge: every way it can hold must exclude the nil case
	if depth < 4 {
		for _, g := range guards {
			ng := normGuard(g)
			ph, ok := ng.Cond.(*ssa.Phi)
			if !ok || !isBoolType(ph.Type()) {
				continue
			}
			cases := phiGuardCases(ph, ng.Pol)
			all := len(cases) > 0
			for _, gs := range cases {
				if ok, _ := p.guardsImplyNonNilD(fn, cz, m, okEdges, gs, depth+1); !ok {
					all = false
				}
			}
			if all {
				return true, "dominated by a condition every disjunct of which excludes the nil case"
			}
		}
	}
	// (a)
	for _, g := range guards {
		ng := normGuard(g)
		bo, ok := ng.Cond.(*ssa.BinOp)
		if !ok {
			continue
		}
		if c, ok := bo.X.(*ssa.Call); ok {
			if bi, ok := c.Call.Value.(*ssa.Builtin); ok && bi.Name() == "len" && c.Call.Args[0] == ssa.Value(m) {
				if k, ok := constInt(bo.Y); ok {
					pos := (bo.Op == token.GTR && k >= 0 && ng.Pol) || (bo.Op == token.NEQ && k == 0 && ng.Pol) || (bo.Op == token.EQL && k > 0 && ng.Pol) ||
						(bo.Op == token.EQL && k == 0 && !ng.Pol) || (bo.Op == token.GEQ && k >= 1 && ng.Pol) || (bo.Op == token.LEQ && k == 0 && !ng.Pol)
					if pos {
						return true, "dominated by len(" + m.Comment + ") > 0"
					}
				}
			}
		}
		if (bo.Op == token.EQL || bo.Op == token.NEQ) && (isNilConst(bo.Y) && bo.X == ssa.Value(m) || isNilConst(bo.X) && bo.Y == ssa.Value(m)) {
			if (bo.Op == token.NEQ) == ng.Pol {
				return true, "dominated by " + m.Comment + " != nil"
			}
		}
	}
	// gating condition: the phi block's predecessors on ok edges are dominated by one edge of a branch
	blk := m.Block()
	for _, b := range fn.Blocks {
		if len(b.Instrs) == 0 {
			continue
		}
		ifi, ok := b.Instrs[len(b.Instrs)-1].(*ssa.If)
		if !ok || !b.Dominates(blk) {
			continue
		}
		for si := 0; si < 2; si++ {
			// all ok edges come through this edge and no nil edge does
			all := len(okEdges) > 0
			okSet := map[int]bool{}
			for _, i := range okEdges {
				okSet[i] = true
				if !edgeDominates(b, si, blk.Preds[i]) && !(b.Succs[si] == blk && blk.Preds[i] == b) {
					all = false
				}
			}
			for i := range m.Edges {
				if !okSet[i] && (edgeDominates(b, si, blk.Preds[i]) || blk.Preds[i] == b && b.Succs[si] == blk) {
					all = false
				}
			}
			if !all {
				continue
			}
			gate := normGuard(guard{ifi.Cond, si == 0})
			// (b) same condition with the same polarity dominates the use
			for _, g := range guards {
				ng := normGuard(g)
				if sameGuard(cz, ng, gate) {
					return true, "dominated by the condition under which " + m.Comment + " was made (" + cz.of(gate.Cond) + ")"
				}
				// (c) x == "lit" implies x != ""
				if implies(cz, ng, gate) {
					return true, "dominated by a condition implying the one under which " + m.Comment + " was made"
				}
			}
			// (d) another phi of the same block, same gating, tested non-nil
			for _, in := range blk.Instrs {
				n, ok := in.(*ssa.Phi)
				if !ok {
					break
				}
				if n == m {
					continue
				}
				same := len(n.Edges) == len(m.Edges)
				for i := range n.Edges {
					if same && isNilConst(n.Edges[i]) != isNilConst(m.Edges[i]) {
						same = false
					}
				}
				if !same {
					continue
				}
				for _, g := range guards {
					ng := normGuard(g)
					if bo, ok := ng.Cond.(*ssa.BinOp); ok && (bo.Op == token.EQL || bo.Op == token.NEQ) {
						if (isNilConst(bo.Y) && bo.X == ssa.Value(n) || isNilConst(bo.X) && bo.Y == ssa.Value(n)) && (bo.Op == token.NEQ) == ng.Pol {
							return true, "dominated by " + n.Comment + " != nil, and " + n.Comment + " is nil exactly on the paths where " + m.Comment + " is"
						}
					}
				}
			}
		}
	}
	return false, ""
}

// implies: guard a implies guard b for simple string comparisons: (x == "lit", lit != "") => (x != "").
func implies(cz *canonizer, a, b guard) bool {
	ba, ok1 := a.Cond.(*ssa.BinOp)
	bb, ok2 := b.Cond.(*ssa.BinOp)
	if !ok1 || !ok2 {
		return false
	}
	if !isStringType(ba.X.Type()) || !isStringType(bb.X.Type()) {
		return false
	}
	if cz.of(ba.X) != cz.of(bb.X) {
		return false
	}
	la, okA := constString(ba.Y)
	lb, okB := constString(bb.Y)
	if !okA || !okB {
		return false
	}
	aEq := (ba.Op == token.EQL) == a.Pol
	bEq := (bb.Op == token.EQL) == b.Pol
	if ba.Op != token.EQL && ba.Op != token.NEQ || bb.Op != token.EQL && bb.Op != token.NEQ {
		return false
	}
	// a: x == la ; b: x != lb  with la != lb
	if aEq && !bEq && la != lb {
		return true
	}
	return false
}

// resultNeverNilMap: every return of g yields a made (or asserted) map for result idx.
func (p *Prog) resultNeverNilMap(g *ssa.Function, idx int) bool {
	key := fmt.Sprintf("rnnm:%p:%d", g, idx)
	if v, ok := p.facts[key]; ok {
		return v.(bool) // coinductive over recursion
	}
	p.facts[key] = true
	ok := true
	n := 0
	cz := p.canonFor(g)
	eachInstr(g, func(b *ssa.BasicBlock, in ssa.Instruction) {
		if ret, isRet := in.(*ssa.Return); isRet {
			n++
			if idx >= len(ret.Results) {
				ok = false
				return
			}
			// the same judgement as for a map that is written to: made maps, assertion results under their test, phis whose
			// possibly-nil edges are excluded by a flag that is set together with the assignment
			if nn, _ := p.mapNonNil(g, cz, ret.Results[idx], ret); !nn {
				ok = false
			}
		}
	})
	res := ok && n > 0
	p.facts[key] = res
	return res
}

// nilOnlyWithError: on every return of g where result idx may be nil, the error result is certainly non-nil.
func (p *Prog) nilOnlyWithError(g *ssa.Function, idx int) bool {
	key := fmt.Sprintf("nowe:%p:%d", g, idx)
	if v, ok := p.facts[key]; ok {
		return v.(bool) // coinductive: a call in progress counts as true
	}
	p.facts[key] = true
	ok := true
	cz := p.canonFor(g)
	eachInstr(g, func(b *ssa.BasicBlock, in ssa.Instruction) {
		ret, isRet := in.(*ssa.Return)
		if !isRet {
			return
		}
		v := ret.Results[idx]
		if nn, _ := p.mapNonNil(g, cz, v, ret); nn {
			return
		}
		e := ret.Results[len(ret.Results)-1]
		// tail call: both results come from the same module call with the same property
		if ex, isEx := v.(*ssa.Extract); isEx {
			if c, isCall := ex.Tuple.(*ssa.Call); isCall {
				if h := staticCallee(&c.Call); h != nil && p.InModule(h) {
					if ee, isEE := e.(*ssa.Extract); isEE && ee.Tuple == ex.Tuple && p.nilOnlyWithError(h, ex.Index) {
						return
					}
				}
			}
		}
		if !isErrorType(e.Type()) || !certainlyNonNilError(e) {
			ok = false
		}
	})
	p.facts[key] = ok
	return ok
}

// derefNonNil: obligations for loads through (a) a pointer returned by a module function with a nil-returning path,
// (b) a package-level pointer variable. Other pointers (receivers, addresses of locals, fresh allocations) are not nil by construction.
func (p *Prog) derefNonNil(fn *ssa.Function, cz *canonizer, ld *ssa.UnOp) (bool, string, bool) {
	ptr := ld.X
	// field access through a pointer: look at the base pointer
	for {
		if fa, ok := ptr.(*ssa.FieldAddr); ok {
			ptr = fa.X
			continue
		}
		break
	}
	switch x := ptr.(type) {
	case *ssa.Extract:
		c, ok := x.Tuple.(*ssa.Call)
		if !ok {
			return true, "", false
		}
		g := staticCallee(&c.Call)
		if g == nil || !p.InModule(g) {
			return true, "", false
		}
		if _, isPtr := x.Type().Underlying().(*types.Pointer); !isPtr {
			return true, "", false
		}
		if !p.mayReturnNilPtr(g, x.Index) {
			return true, "result of " + p.Name(g) + " is never nil", true
		}
		if guardedNonNil(cz, x, ld.Block()) {
			return true, "dominated by a nil test of the pointer", true
		}
		if ev := errResult(c); ev != nil && p.nilPtrOnlyWithError(g, x.Index) && errCheckedBefore(ev, ld.Block()) {
			return true, p.Name(g) + " returns a nil pointer only together with an error, and the dereference is dominated by err == nil", true
		}
		return false, p.Name(g) + " can return a nil pointer (with an error) and the dereference is reachable without the error having been excluded", true
	case *ssa.UnOp:
		if g := globalOf(x); g != nil {
			if _, isPtr := x.Type().Underlying().(*types.Pointer); !isPtr {
				return true, "", false
			}
			if guardedNonNil(cz, x, ld.Block()) {
				return true, "dominated by " + g.Name() + " != nil", true
			}
			// one level up: every call site of fn is dominated by the test
			sites := p.CG().sites[fn]
			okAll := len(sites) > 0 && !p.Exported(fn)
			for _, s := range sites {
				caller := s.Parent()
				found := false
				for _, gd := range dominatingGuards(s.Block()) {
					ng := normGuard(gd)
					if bo, ok := ng.Cond.(*ssa.BinOp); ok && globalOf(bo.X) == g && isNilConst(bo.Y) && (bo.Op == token.NEQ) == ng.Pol {
						found = true
					}
				}
				_ = caller
				if !found {
					okAll = false
				}
			}
			if okAll {
				return true, "every call of " + p.Name(fn) + " is dominated by " + g.Name() + " != nil", true
			}
			return false, "package-level pointer " + g.Name() + " is dereferenced without a dominating nil test", true
		}
	}
	return true, "", false
}

func (p *Prog) mayReturnNilPtr(g *ssa.Function, idx int) bool {
	may := false
	eachInstr(g, func(b *ssa.BasicBlock, in ssa.Instruction) {
		if ret, ok := in.(*ssa.Return); ok {
			if isNilConst(ret.Results[idx]) {
				may = true
			}
			if ph, ok := ret.Results[idx].(*ssa.Phi); ok {
				for _, e := range ph.Edges {
					if isNilConst(e) {
						may = true
					}
				}
			}
		}
	})
	return may
}

func (p *Prog) nilPtrOnlyWithError(g *ssa.Function, idx int) bool {
	ok := true
	eachInstr(g, func(b *ssa.BasicBlock, in ssa.Instruction) {
		if ret, isRet := in.(*ssa.Return); isRet && isNilConst(ret.Results[idx]) {
			e := ret.Results[len(ret.Results)-1]
			if !isErrorType(e.Type()) || !certainlyNonNilError(e) {
				ok = false
			}
		}
	})
	return ok
}

// sameGuard: two guards state the same fact (x == y taken false  ==  x != y taken true).
func sameGuard(cz *canonizer, a, b guard) bool {
	if cz.of(a.Cond) == cz.of(b.Cond) {
		return a.Pol == b.Pol
	}
	ba, ok1 := a.Cond.(*ssa.BinOp)
	bb, ok2 := b.Cond.(*ssa.BinOp)
	if !ok1 || !ok2 {
		return false
	}
	if cz.of(ba.X) != cz.of(bb.X) || cz.of(ba.Y) != cz.of(bb.Y) {
		return false
	}
	compl := (ba.Op == token.EQL && bb.Op == token.NEQ) || (ba.Op == token.NEQ && bb.Op == token.EQL)
	return compl && a.Pol != b.Pol
}

// flagImplies: whenever the boolean f is true, the map/pointer v is non-nil — a relational invariant between two
// variables that are updated together (found-flag pairing): checked edge-wise over phis of the same block.
func (p *Prog) flagImplies(fn *ssa.Function, cz *canonizer, f, v ssa.Value, seen map[[2]ssa.Value]bool) bool {
	return p.flagImpliesAt(fn, cz, f, v, nil, seen)
}

// flagImpliesAt: at is the point at which the pair (f, v) is current — the end of the predecessor block over whose edge both
// values flow into their phis; a comma-ok assertion result is a non-nil map there if the edge is under its ok test.
func (p *Prog) flagImpliesAt(fn *ssa.Function, cz *canonizer, f, v ssa.Value, at ssa.Instruction, seen map[[2]ssa.Value]bool) bool {
	k := [2]ssa.Value{f, v}
	if seen[k] {
		return true
	}
	seen[k] = true
	if b, ok := constBool(f); ok {
		if !b {
			return true
		}
		if isNilConst(v) {
			return false
		}
		if in, ok := v.(ssa.Instruction); ok {
			if at != nil {
				in = at
			}
			okv, _ := p.mapNonNil(fn, cz, v, in)
			return okv
		}
		return false
	}
	// nm, found = x.(map[string]interface{}): the flag is the assertion's own ok
	if fe, isE := f.(*ssa.Extract); isE && fe.Index == 1 {
		if ve, isV := v.(*ssa.Extract); isV && ve.Index == 0 && ve.Tuple == fe.Tuple {
			if ta, isTA := fe.Tuple.(*ssa.TypeAssert); isTA && ta.CommaOk {
				return true // under ok the asserted value is what the interface held (A-typednil: no typed-nil containers)
			}
		}
	}
	pf, ok1 := f.(*ssa.Phi)
	pv, ok2 := v.(*ssa.Phi)
	if ok1 && ok2 && pf.Block() == pv.Block() {
		for i := range pf.Edges {
			pred := pf.Block().Preds[i]
			if !p.flagImpliesAt(fn, cz, pf.Edges[i], pv.Edges[i], pred.Instrs[len(pred.Instrs)-1], seen) {
				return false
			}
		}
		return true
	}
	if ok1 && !ok2 {
		// v does not change where f merges: every true-capable edge of f must imply v
		for i := range pf.Edges {
			if !p.flagImpliesAt(fn, cz, pf.Edges[i], v, at, seen) {
				return false
			}
		}
		return true
	}
	return false
}

// tokenNestingPremise: a map write in the xml.EndElement arm of a decoder loop whose tokens come from
// (*xml.Decoder).Token. Token (unlike RawToken) guarantees that StartElement and EndElement tokens are properly
// nested and matched, so an EndElement cannot arrive before the root StartElement (when the maps are still nil).
func (p *Prog) tokenNestingPremise(fn *ssa.Function, in ssa.Instruction) string {
	for _, g := range dominatingGuards(in.Block()) {
		ng := normGuard(g)
		ex, ok := ng.Cond.(*ssa.Extract)
		if !ok || !ng.Pol || ex.Index != 1 {
			continue
		}
		ta, ok := ex.Tuple.(*ssa.TypeAssert)
		if !ok || tname(ta.AssertedType) != "encoding/xml.EndElement" {
			continue
		}
		// the asserted value is the token result of Decoder.Token
		tok, ok := ta.X.(*ssa.Extract)
		if !ok {
			continue
		}
		c, ok := tok.Tuple.(*ssa.Call)
		if !ok || !isCallTo(&c.Call, "(*encoding/xml.Decoder).Token") {
			continue
		}
		return "xml.Decoder.Token guarantees matched nesting: an EndElement is delivered only after its StartElement, i.e. after this call level made its maps (premise checked: the token comes from Token, not RawToken)"
	}
	return ""
}
