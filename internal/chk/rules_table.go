package chk

import (
	"fmt"
	"go/ast"
	"go/constant"
	"go/token"
	"go/types"
	"sort"
	"strconv"
	"strings"

	"golang.org/x/tools/go/ssa"
)

// ===== family I: TABLE — constants and tables ==========================================================

// escape table as written in the source: (pattern, replacement) pairs, and the table's form:
//
//	"pairs"   [][2][]byte / [][2]string literal applied sequentially (order matters),
//	"bychar"  array or map literal keyed by the character (single pass, order irrelevant),
//	"replacer" strings.NewReplacer(old1, new1, ...) (single pass).
func (p *Prog) escapeTable() ([][2]string, token.Pos, string) {
	pk := p.Pkgs["mxj"]
	constStr := func(e ast.Expr) (string, bool) {
		if call, ok := e.(*ast.CallExpr); ok && len(call.Args) == 1 {
			e = call.Args[0] // []byte("...") conversion
		}
		tv := pk.TypesInfo.Types[e]
		if tv.Value != nil && tv.Value.Kind() == constant.String {
			return constant.StringVal(tv.Value), true
		}
		return "", false
	}
	for _, f := range pk.Syntax {
		for _, d := range f.Decls {
			gd, ok := d.(*ast.GenDecl)
			if !ok || gd.Tok != token.VAR {
				continue
			}
			for _, sp := range gd.Specs {
				vs := sp.(*ast.ValueSpec)
				for i, nm := range vs.Names {
					if nm.Name != p.escapeTableVar() || i >= len(vs.Values) {
						continue
					}
					// strings.NewReplacer(...)
					if call, ok := vs.Values[i].(*ast.CallExpr); ok {
						if sel, ok := call.Fun.(*ast.SelectorExpr); ok && sel.Sel.Name == "NewReplacer" && len(call.Args)%2 == 0 {
							var out [][2]string
							for j := 0; j+1 < len(call.Args); j += 2 {
								a, ok1 := constStr(call.Args[j])
								b, ok2 := constStr(call.Args[j+1])
								if !ok1 || !ok2 {
									return nil, nm.Pos(), ""
								}
								out = append(out, [2]string{a, b})
							}
							return out, nm.Pos(), "replacer"
						}
						return nil, nm.Pos(), ""
					}
					cl, ok := vs.Values[i].(*ast.CompositeLit)
					if !ok {
						return nil, nm.Pos(), ""
					}
					var out [][2]string
					kind := ""
					for _, el := range cl.Elts {
						switch e := el.(type) {
						case *ast.CompositeLit:
							if len(e.Elts) != 2 {
								return nil, nm.Pos(), ""
							}
							a, ok1 := constStr(e.Elts[0])
							b, ok2 := constStr(e.Elts[1])
							if !ok1 || !ok2 {
								return nil, nm.Pos(), ""
							}
							out = append(out, [2]string{a, b})
							kind = "pairs"
						case *ast.KeyValueExpr:
							ktv := pk.TypesInfo.Types[e.Key]
							if ktv.Value == nil {
								return nil, nm.Pos(), ""
							}
							var key string
							switch ktv.Value.Kind() {
							case constant.Int:
								k, _ := constant.Int64Val(ktv.Value)
								key = string(rune(k))
							case constant.String:
								key = constant.StringVal(ktv.Value)
							default:
								return nil, nm.Pos(), ""
							}
							v, ok := constStr(e.Value)
							if !ok {
								return nil, nm.Pos(), ""
							}
							out = append(out, [2]string{key, v})
							kind = "bychar"
						default:
							return nil, nm.Pos(), ""
						}
					}
					return out, nm.Pos(), kind
				}
			}
		}
	}
	// fourth form: a function from the character to its replacement, written as a switch with constant results
	if fn := p.Fn("mxj.escapeChars"); fn != nil {
		for h := range p.Reach(fn) {
			if h == fn || !p.InModule(h) || p.Exported(h) || len(h.Params) != 1 || len(h.Blocks) == 0 {
				continue
			}
			bt, ok := h.Params[0].Type().Underlying().(*types.Basic)
			if !ok || bt.Info()&types.IsInteger == 0 || h.Signature.Results().Len() < 1 || !isStringType(h.Signature.Results().At(0).Type()) {
				continue
			}
			var out [][2]string
			okAll := true
			eachInstr(h, func(b *ssa.BasicBlock, in ssa.Instruction) {
				ret, isR := in.(*ssa.Return)
				if !isR {
					return
				}
				rs, isC := constString(ret.Results[0])
				if !isC {
					okAll = false
					return
				}
				if rs == "" {
					return
				}
				found := false
				for _, gd := range dominatingGuards(b) {
					ng := normGuard(gd)
					if bo, ok := ng.Cond.(*ssa.BinOp); ok && bo.Op == token.EQL && ng.Pol && bo.X == ssa.Value(h.Params[0]) {
						if k, isK := constInt(bo.Y); isK {
							out = append(out, [2]string{string(rune(k)), rs})
							found = true
						}
					}
				}
				if !found {
					okAll = false
				}
			})
			if okAll && len(out) > 0 {
				sort.Slice(out, func(i, j int) bool { return out[i][0] < out[j][0] })
				p.facts["escapeSwitchFn"] = h
				return out, h.Pos(), "switchfn"
			}
		}
	}
	return nil, token.NoPos, ""
}

var xmlEntities = map[string]string{"&": "&amp;", "<": "&lt;", ">": "&gt;", `"`: "&quot;", "'": "&apos;"}

func ruleTableEscape(p *Prog, r *Report) {
	const rule = "TABLE.escape"
	tab, pos, kind := p.escapeTable()
	if kind == "" {
		r.Unknown(rule, "mxj.escapechars", "table literal", p.Pos(pos), "the escape table is not a literal of constant (pattern, replacement) entries in one of the recognised forms (pair list, table keyed by character, strings.NewReplacer, switch function from the character to its replacement)")
		return
	}
	seen := map[string]bool{}
	for i, pr := range tab {
		want, known := xmlEntities[pr[0]]
		c := fmt.Sprintf("entry %q", pr[0])
		switch {
		case !known:
			r.Bad(rule, "mxj.escapechars", c, p.Pos(pos), "pattern is not one of the five XML special characters")
		case want != pr[1]:
			r.Bad(rule, "mxj.escapechars", c, p.Pos(pos), fmt.Sprintf("maps to %q, the predefined entity is %q", pr[1], want))
		default:
			r.OK(rule, "mxj.escapechars", c, p.Pos(pos), "maps to its predefined XML entity "+want)
		}
		seen[pr[0]] = true
		for j := i + 1; j < len(tab) && kind == "pairs"; j++ {
			if strings.Contains(pr[1], tab[j][0]) {
				r.Bad(rule, "mxj.escapechars", fmt.Sprintf("order %q before %q", pr[0], tab[j][0]), p.Pos(pos),
					fmt.Sprintf("replacement %q of entry %d contains the later pattern %q: it would be escaped a second time", pr[1], i, tab[j][0]))
			}
		}
	}
	for ch := range xmlEntities {
		if !seen[ch] {
			r.Bad(rule, "mxj.escapechars", fmt.Sprintf("entry %q", ch), p.Pos(pos), "special character missing from the table")
		}
	}
	fn := p.Fn("mxj.escapeChars")
	g := p.Globals["mxj."+p.escapeTableVar()]
	if fn == nil || (g == nil && kind != "switchfn") {
		r.Anchor(rule, "mxj.escapeChars")
		return
	}
	if kind == "switchfn" {
		h := p.facts["escapeSwitchFn"].(*ssa.Function)
		r.OK(rule, "mxj.escapechars", "no double escaping by order", p.Pos(pos), "single-pass table (a switch on the character in "+p.Name(h)+"): each input character is replaced once, order is irrelevant")
		// the escaping function asks the table function for every byte of its input: the call sits in a loop over the indices of the
		// parameter and its argument is the byte at the loop index
		uses := false
		eachInstr(fn, func(b *ssa.BasicBlock, in ssa.Instruction) {
			c, ok := in.(*ssa.Call)
			if !ok || staticCallee(&c.Call) != h || innermostLoopHeader(b) == nil {
				return
			}
			for v := range backwardSlice(fn, c.Call.Args[0]) {
				if v == ssa.Value(fn.Params[0]) {
					uses = true
				}
			}
		})
		if uses {
			r.OK(rule, "mxj.escapeChars", "applies the table in order", p.Pos(fn.Pos()), "the table function is called in a loop on the bytes of the input")
		} else {
			r.Bad(rule, "mxj.escapeChars", "applies the table in order", p.Pos(fn.Pos()), "the escaping function does not call the table function on the bytes of its input in a loop")
		}
	} else if kind != "pairs" {
		r.OK(rule, "mxj.escapechars", "no double escaping by order", p.Pos(pos), "single-pass table ("+kind+"): each input character is replaced once, order is irrelevant")
		// the function must consult the table
		uses := false
		eachInstr(fn, func(b *ssa.BasicBlock, in ssa.Instruction) {
			for _, op := range in.Operands(nil) {
				if op != nil && *op == ssa.Value(g) {
					uses = true
				}
			}
		})
		if uses {
			r.OK(rule, "mxj.escapeChars", "applies the table in order", p.Pos(fn.Pos()), "the escaping function reads the table")
		} else {
			r.Bad(rule, "mxj.escapeChars", "applies the table in order", p.Pos(fn.Pos()), "the escaping function does not use the table")
		}
	} else {
		r.OK(rule, "mxj.escapechars", "no double escaping by order", p.Pos(pos), "no replacement contains a pattern that is applied after it ('&' first)")
	}
	// the loop applies the pairs in table order to an accumulator
	var rangeElem *ssa.IndexAddr
	if kind == "pairs" {
		eachInstr(fn, func(b *ssa.BasicBlock, in ssa.Instruction) {
			if ia, ok := in.(*ssa.IndexAddr); ok && globalOf(ia.X) == g {
				rangeElem = ia
			}
		})
		if rangeElem == nil {
			// single pass over the input, each byte looked up in the table by a helper: `for each byte c { if e := lookup(c); e != nil
			// { write e } else { write c } }`, lookup scanning the table for the entry whose (one-byte) pattern is c
			lookupOK := ""
			single := true
			for _, pr := range tab {
				if len(pr[0]) != 1 {
					single = false
				}
			}
			eachInstr(fn, func(b *ssa.BasicBlock, in ssa.Instruction) {
				c, ok := in.(*ssa.Call)
				if !ok || lookupOK != "" || innermostLoopHeader(b) == nil || !single {
					return
				}
				h := staticCallee(&c.Call)
				if h == nil || !p.InModule(h) || p.Exported(h) || len(h.Blocks) == 0 || len(c.Call.Args) != 1 || len(h.Params) != 1 {
					return
				}
				fromInput := false
				for v := range backwardSlice(fn, c.Call.Args[0]) {
					if v == ssa.Value(fn.Params[0]) {
						fromInput = true
					}
				}
				if !fromInput {
					return
				}
				// the helper: a range over the table, the pattern's byte compared with the parameter, the replacement returned on equality
				var elem *ssa.IndexAddr
				eachInstr(h, func(b2 *ssa.BasicBlock, i2 ssa.Instruction) {
					if ia, ok := i2.(*ssa.IndexAddr); ok && globalOf(ia.X) == g && isRangeIndex(ia.Index) {
						elem = ia
					}
				})
				if elem == nil {
					return
				}
				compOf := func(v ssa.Value) int64 {
					for x := range backwardSlice(h, v) {
						var idx ssa.Value
						var base ssa.Value
						switch y := x.(type) {
						case *ssa.IndexAddr:
							idx, base = y.Index, y.X
						case *ssa.Index:
							idx, base = y.Index, y.X
						}
						if base == nil {
							continue
						}
						if u, isU := base.(*ssa.UnOp); isU {
							base = u.X
						}
						// the range value copied into a local: *v = *(&table[i])
						if al, isA := base.(*ssa.Alloc); isA {
							for _, ref := range *al.Referrers() {
								if st, isSt := ref.(*ssa.Store); isSt && st.Addr == ssa.Value(al) {
									if ld, isLd := st.Val.(*ssa.UnOp); isLd && ld.X == ssa.Value(elem) {
										base = elem
									}
								}
							}
						}
						if base == ssa.Value(elem) {
							if k, isK := constInt(idx); isK {
								return k
							}
						}
					}
					return -1
				}
				okCmp, okRet := false, false
				eachInstr(h, func(b2 *ssa.BasicBlock, i2 ssa.Instruction) {
					if bo, ok := i2.(*ssa.BinOp); ok && bo.Op == token.EQL {
						if (bo.Y == ssa.Value(h.Params[0]) && compOf(bo.X) == 0) || (bo.X == ssa.Value(h.Params[0]) && compOf(bo.Y) == 0) {
							okCmp = true
							// a return of component 1 under the true edge
							eachInstr(h, func(b3 *ssa.BasicBlock, i3 ssa.Instruction) {
								ret, isRet := i3.(*ssa.Return)
								if !isRet || len(ret.Results) != 1 || isNilConst(ret.Results[0]) || compOf(ret.Results[0]) != 1 {
									return
								}
								for _, gd := range dominatingGuards(b3) {
									if gd.Cond == ssa.Value(bo) && gd.Pol {
										okRet = true
									}
								}
							})
						}
					}
				})
				if okCmp && okRet {
					lookupOK = p.Name(h)
				}
			})
			if lookupOK != "" {
				r.OK(rule, "mxj.escapeChars", "applies the table in order", p.Pos(fn.Pos()), "single pass over the input: every byte is looked up in the table by "+lookupOK+" (one-byte patterns, the entry's replacement returned on equality), so each character is replaced once and the order of the entries is irrelevant")
			} else {
				r.Bad(rule, "mxj.escapeChars", "applies the table in order", p.Pos(fn.Pos()), "no loop over the escape table found")
			}
		} else {
			okIdx := isRangeIndex(rangeElem.Index)
			// a Replace call whose old/new operands are components 0/1 of the element and whose subject is the accumulator
			okRepl := false
			var replCall *ssa.Call
			comp := func(v ssa.Value) int64 {
				u, ok := v.(*ssa.UnOp)
				if !ok {
					if ix, ok := v.(*ssa.Index); ok {
						if k, isK := constInt(ix.Index); isK {
							return k
						}
					}
					return -1
				}
				ia, ok := u.X.(*ssa.IndexAddr)
				if !ok {
					return -1
				}
				k, isK := constInt(ia.Index)
				if !isK {
					return -1
				}
				return k
			}
			eachInstr(fn, func(b *ssa.BasicBlock, in ssa.Instruction) {
				c, ok := in.(*ssa.Call)
				if !ok || !isCallTo(&c.Call, "bytes.Replace", "bytes.ReplaceAll", "strings.Replace", "strings.ReplaceAll") {
					return
				}
				if comp(c.Call.Args[1]) == 0 && comp(c.Call.Args[2]) == 1 {
					// accumulator: result flows back into the subject through a phi
					if ph, ok := c.Call.Args[0].(*ssa.Phi); ok {
						for _, e := range ph.Edges {
							if e == ssa.Value(c) || phiChainReaches(e, ph) || backwardSlice(fn, e)[c] {
								okRepl = true
								replCall = c
							}
						}
					}
				}
			})
			// no iteration skips its pair: every path from the element load back to the loop header passes through the Replace,
			// except over an edge that established that the running result does not contain the pattern (Count(...) == 0)
			if okIdx && okRepl && replCall != nil {
				hdr := innermostLoopHeader(rangeElem.Block())
				justified := func(from *ssa.BasicBlock, si int) bool {
					ifi, ok := from.Instrs[len(from.Instrs)-1].(*ssa.If)
					if !ok {
						return false
					}
					ng := normGuard(guard{ifi.Cond, si == 0})
					bo, ok := ng.Cond.(*ssa.BinOp)
					if !ok {
						return false
					}
					k, isK := constInt(bo.Y)
					cnt, isCall := bo.X.(*ssa.Call)
					if !isK || k != 0 || !isCall || !isCallTo(&cnt.Call, "bytes.Count", "strings.Count") {
						return false
					}
					zero := bo.Op == token.EQL && ng.Pol || (bo.Op == token.NEQ || bo.Op == token.GTR) && !ng.Pol
					return zero && comp(cnt.Call.Args[1]) == 0 && cnt.Call.Args[0] == replCall.Call.Args[0]
				}
				skipped := false
				if hdr != nil {
					seen := map[*ssa.BasicBlock]bool{rangeElem.Block(): true}
					work := []*ssa.BasicBlock{rangeElem.Block()}
					for len(work) > 0 && !skipped {
						b := work[len(work)-1]
						work = work[:len(work)-1]
						if b == replCall.Block() {
							continue
						}
						for si, sc := range b.Succs {
							if justified(b, si) {
								continue
							}
							if sc == hdr {
								skipped = true
								break
							}
							if !seen[sc] {
								seen[sc] = true
								work = append(work, sc)
							}
						}
					}
				}
				if hdr == nil {
					r.Unknown(rule, "mxj.escapeChars", "every pair applied", p.Pos(fn.Pos()), "loop header of the table range not found")
				} else if skipped {
					r.Bad(rule, "mxj.escapeChars", "every pair applied", p.Pos(replCall.Pos()), "an iteration can reach the next table entry without replacing the current pattern although the text may contain it")
				} else {
					r.OK(rule, "mxj.escapeChars", "every pair applied", p.Pos(replCall.Pos()), "every iteration passes through the Replace call unless the running text does not contain the pattern")
				}
			}
			if okIdx && okRepl {
				r.OK(rule, "mxj.escapeChars", "applies the table in order", p.Pos(fn.Pos()), "ascending range over the table, each pair applied to the running result")
			} else {
				r.Bad(rule, "mxj.escapeChars", "applies the table in order", p.Pos(fn.Pos()), fmt.Sprintf("ascending range=%v, replace(acc, pair[0], pair[1]) feeding the next iteration=%v", okIdx, okRepl))
			}
		}
	}
	// early returns of the unmodified input must be justified for every special character
	var specials []string
	for _, pr := range tab {
		specials = append(specials, pr[0])
	}
	prm := fn.Params[0]
	cz := p.canonFor(fn)
	eachInstr(fn, func(b *ssa.BasicBlock, in ssa.Instruction) {
		ret, ok := in.(*ssa.Return)
		if !ok || ret.Results[0] != ssa.Value(prm) {
			return
		}
		just := false
		why := ""
		for _, g := range dominatingGuards(b) {
			ng := normGuard(g)
			switch c := ng.Cond.(type) {
			case *ssa.BinOp:
				if cz.of(c.X) == "len(param:"+prm.Name()+")" {
					if k, isK := constInt(c.Y); isK && k == 0 && (c.Op == token.EQL) == ng.Pol {
						just, why = true, "input is empty"
					}
				}
				if c.X == ssa.Value(prm) {
					if s, isS := constString(c.Y); isS && s == "" && (c.Op == token.EQL) == ng.Pol {
						just, why = true, "input is empty"
					}
				}
			case *ssa.Call:
				if !ng.Pol && isCallTo(&c.Call, "strings.ContainsAny") && c.Call.Args[0] == ssa.Value(prm) {
					if set, isS := constString(c.Call.Args[1]); isS {
						all := true
						for _, sp := range specials {
							if !strings.Contains(set, sp) {
								all = false
							}
						}
						if all {
							just, why = true, "input contains none of the table's patterns"
						}
					}
				}
			}
		}
		if just {
			r.OK(rule, "mxj.escapeChars", "unescaped early return", p.Pos(ret.Pos()), why)
		} else {
			r.Bad(rule, "mxj.escapeChars", "unescaped early return", p.Pos(ret.Pos()), "the input is returned unescaped on a path that does not exclude every special character of the table")
		}
	})
}

// ---- TABLE.naninf ---------------------------------------------------------------------------------------------

var nanInfSpellings = []string{"nan", "inf", "+inf", "-inf", "infinity", "+infinity", "-infinity"}

// nanInfExcluded: must-analysis over f — for every block, the NaN/Inf spellings that the (case-folded) string parameter sp has been
// compared unequal to on every path into the block on which flag is not known true. A branch on a module predicate called with
// the parameter excludes, on its false edge, what that predicate excludes before every `return false` (its own summary).
func (p *Prog) nanInfExcluded(fn *ssa.Function, sp *ssa.Parameter, flag *ssa.Global, depth int) map[*ssa.BasicBlock]map[string]bool {
	s := sp
	cz := p.canonFor(fn)
	type st = map[string]bool
	universe := func() st {
		u := st{}
		for _, sp := range nanInfSpellings {
			u[sp] = true
		}
		return u
	}
	meet := func(a, b st) st {
		c := st{}
		for k := range a {
			if b[k] {
				c[k] = true
			}
		}
		return c
	}
	isFoldedInput := func(v ssa.Value) bool {
		c := cz.of(v)
		return c == "strings.ToLower(param:"+s.Name()+")" || c == "param:"+s.Name() || c == "strings.ToUpper(param:"+s.Name()+")"
	}
	in := map[*ssa.BasicBlock]st{}
	have := map[*ssa.BasicBlock]bool{}
	in[fn.Blocks[0]] = st{}
	have[fn.Blocks[0]] = true
	changed := true
	for iter := 0; changed && iter < 100; iter++ {
		changed = false
		for _, b := range fn.Blocks {
			if !have[b] {
				continue
			}
			for si, succ := range b.Succs {
				es := st{}
				for k := range in[b] {
					es[k] = true
				}
				if ifi, ok := b.Instrs[len(b.Instrs)-1].(*ssa.If); ok {
					ng := normGuard(guard{ifi.Cond, si == 0})
					if flag != nil && globalOf(ng.Cond) == flag && ng.Pol {
						es = universe()
					}
					if bo, ok := ng.Cond.(*ssa.BinOp); ok && (bo.Op == token.EQL || bo.Op == token.NEQ) {
						var lit string
						var okLit bool
						folded := false
						if isFoldedInput(bo.X) {
							lit, okLit = constString(bo.Y)
							folded = strings.HasPrefix(cz.of(bo.X), "strings.ToLower")
						} else if isFoldedInput(bo.Y) {
							lit, okLit = constString(bo.X)
							folded = strings.HasPrefix(cz.of(bo.Y), "strings.ToLower")
						}
						if okLit && ((bo.Op == token.EQL) != ng.Pol) && folded {
							es[lit] = true
						}
					}
					// a predicate of the module applied to the input: its false answer excludes what it tests for
					if c, ok := ng.Cond.(*ssa.Call); ok && !ng.Pol && depth < 2 {
						if h := staticCallee(&c.Call); h != nil && p.InModule(h) && len(h.Blocks) > 0 && len(c.Call.Args) == 1 && len(h.Params) == 1 && isFoldedInput(c.Call.Args[0]) && isStringType(h.Params[0].Type()) {
							folded := strings.HasPrefix(cz.of(c.Call.Args[0]), "strings.ToLower")
							hin := p.nanInfExcluded(h, h.Params[0], nil, depth+1)
							var sum st
							eachInstr(h, func(hb *ssa.BasicBlock, hi ssa.Instruction) {
								ret, isRet := hi.(*ssa.Return)
								if !isRet || len(ret.Results) != 1 {
									return
								}
								if bv, isC := constBool(ret.Results[0]); isC && bv {
									return // a `true` answer does not go over this edge
								}
								if sum == nil {
									sum = st{}
									for k := range hin[hb] {
										sum[k] = true
									}
								} else {
									sum = meet(sum, hin[hb])
								}
							})
							_ = folded
							for k := range sum {
								es[k] = true
							}
							// the predicate may scan a table of spellings: false means unequal to every entry
							for _, k := range p.tableScanExclusions(h) {
								es[k] = true
							}
						}
					}
				}
				if !have[succ] {
					in[succ] = es
					have[succ] = true
					changed = true
				} else {
					m := meet(in[succ], es)
					if len(m) != len(in[succ]) {
						in[succ] = m
						changed = true
					}
				}
			}
		}
	}
	return in
}

// ruleTableNanInf: every return of a strconv.ParseFloat result from the cast function is reached, on paths where castNanInf
// is not known true, only after the case-folded input was compared unequal to all seven spellings ParseFloat accepts for
// NaN/Inf, or after !math.IsNaN && !math.IsInf tests of the result.
func ruleTableNanInf(p *Prog, r *Report) {
	const rule = "TABLE.naninf"
	fn := p.Fn("mxj.cast")
	flag := p.Globals["mxj.castNanInf"]
	if fn == nil || flag == nil {
		r.Anchor(rule, "mxj.cast")
		return
	}
	in := p.nanInfExcluded(fn, fn.Params[0], flag, 0)
	n := 0
	eachInstr(fn, func(b *ssa.BasicBlock, i2 ssa.Instruction) {
		c, ok := i2.(*ssa.Call)
		if !ok || !isCallTo(&c.Call, "strconv.ParseFloat") {
			return
		}
		n++
		res := resultsOf(c)
		// returns of the float result
		eachInstr(fn, func(b2 *ssa.BasicBlock, i3 ssa.Instruction) {
			ret, ok := i3.(*ssa.Return)
			if !ok {
				return
			}
			mi, ok := ret.Results[0].(*ssa.MakeInterface)
			if !ok || res[0] == nil || mi.X != res[0] {
				return
			}
			// post-check on the result?
			post := false
			nanChecked, infChecked := false, false
			for _, g := range dominatingGuards(b2) {
				ng := normGuard(g)
				if cc, ok := ng.Cond.(*ssa.Call); ok && !ng.Pol && len(cc.Call.Args) > 0 && cc.Call.Args[0] == res[0] {
					if isCallTo(&cc.Call, "math.IsNaN") {
						nanChecked = true
					}
					if isCallTo(&cc.Call, "math.IsInf") {
						if k, isK := constInt(cc.Call.Args[1]); isK && k == 0 {
							infChecked = true
						}
					}
				}
			}
			post = nanChecked && infChecked
			var missing []string
			for _, sp := range nanInfSpellings {
				if !in[b2][sp] {
					missing = append(missing, sp)
				}
			}
			construct := "float result returned only for finite numbers"
			if post {
				r.OK(rule, "mxj.cast", construct, p.Pos(ret.Pos()), "result tested with !math.IsNaN and !math.IsInf before it is returned")
			} else if len(missing) == 0 {
				r.OK(rule, "mxj.cast", construct, p.Pos(ret.Pos()), "on every path where castNanInf is not known true the case-folded input was compared unequal to all 7 spellings strconv.ParseFloat accepts")
			} else {
				r.Bad(rule, "mxj.cast", construct, p.Pos(ret.Pos()), "with CastNanInf off these spellings still reach strconv.ParseFloat and are returned as NaN/Inf: "+strings.Join(missing, ", "))
			}
		})
	})
	// the numeric attempts may live in an unexported helper that receives the input: what is excluded where the helper is
	// called is excluded for the ParseFloat inside it
	for _, ch := range p.castHelpers(fn) {
		eachInstr(ch.h, func(b *ssa.BasicBlock, i2 ssa.Instruction) {
			c, ok := i2.(*ssa.Call)
			if !ok || !isCallTo(&c.Call, "strconv.ParseFloat") {
				return
			}
			n++
			construct := "float result returned only for finite numbers"
			if c.Call.Args[0] != ssa.Value(ch.prm) {
				r.Unknown(rule, p.Name(ch.h), construct, p.Pos(c.Pos()), "ParseFloat is not applied to the helper's input parameter")
				return
			}
			// what the helper itself excludes before it returns the float counts as well
			hin := p.nanInfExcluded(ch.h, ch.prm, flag, 1)
			res := resultsOf(c)
			var retBlks []*ssa.BasicBlock
			eachInstr(ch.h, func(b2 *ssa.BasicBlock, i3 ssa.Instruction) {
				if ret, ok := i3.(*ssa.Return); ok && len(ret.Results) > 0 {
					if mi, ok := ret.Results[0].(*ssa.MakeInterface); ok && res[0] != nil && mi.X == res[0] {
						retBlks = append(retBlks, b2)
					}
				}
			})
			if len(retBlks) == 0 {
				retBlks = []*ssa.BasicBlock{c.Block()}
			}
			var missing []string
			for _, sp := range nanInfSpellings {
				if in[ch.site.Block()][sp] {
					continue
				}
				all := true
				for _, rb := range retBlks {
					if !hin[rb][sp] {
						all = false
					}
				}
				if !all {
					missing = append(missing, sp)
				}
			}
			if len(missing) == 0 {
				r.OK(rule, p.Name(ch.h), construct, p.Pos(c.Pos()), "the helper is called (at "+p.Pos(ch.site.Pos())+") only where — or itself returns the float only after — the case-folded input was compared unequal to all 7 spellings strconv.ParseFloat accepts, or castNanInf is on")
			} else {
				r.Bad(rule, p.Name(ch.h), construct, p.Pos(c.Pos()), "with CastNanInf off these spellings still reach strconv.ParseFloat (through the call at "+p.Pos(ch.site.Pos())+") and are returned as NaN/Inf: "+strings.Join(missing, ", "))
			}
		})
	}
	if n == 0 {
		r.Unknown(rule, "mxj.cast", "ParseFloat call", p.Pos(fn.Pos()), "no strconv.ParseFloat call found in the cast function")
	}
}

type castHelper struct {
	h    *ssa.Function
	prm  *ssa.Parameter
	site *ssa.Call
}

// castHelpers: unexported functions cast() hands its input string to.
func (p *Prog) castHelpers(castFn *ssa.Function) []castHelper {
	var out []castHelper
	eachInstr(castFn, func(b *ssa.BasicBlock, in ssa.Instruction) {
		c, ok := in.(*ssa.Call)
		if !ok {
			return
		}
		h := staticCallee(&c.Call)
		if h == nil || h == castFn || !p.InModule(h) || p.Exported(h) || len(h.Blocks) == 0 {
			return
		}
		for i, a := range c.Call.Args {
			if a == ssa.Value(castFn.Params[0]) && i < len(h.Params) {
				out = append(out, castHelper{h, h.Params[i], c})
			}
		}
	})
	return out
}

// ---- TABLE.keys ----------------------------------------------------------------------------------------------------

var specialKeyLits = map[string]string{"#text": "textK", "#seq": "seqK", "#attr": "attrK", "#comment": "commentK",
	"#directive": "directiveK", "#procinst": "procinstK", "#target": "targetK", "#inst": "instK"}

// ruleTableKeys: both halves of the codec read the shared key variables; a literal copy of a default key desynchronises
// decoder and encoder as soon as SetGlobalKeyMapPrefix is used.
func ruleTableKeys(p *Prog, r *Report) {
	const rule = "TABLE.keys"
	n := 0
	for _, fn := range p.PkgFuncs("mxj") {
		if p.Name(fn) == "mxj.SetGlobalKeyMapPrefix" {
			continue
		}
		name := p.Name(fn)
		eachInstr(fn, func(b *ssa.BasicBlock, in ssa.Instruction) {
			check := func(v ssa.Value, what string) {
				s, ok := constString(v)
				if !ok {
					return
				}
				if vn, isKey := specialKeyLits[s]; isKey {
					n++
					r.Bad(rule, name, fmt.Sprintf("literal %q as %s", s, what), p.Pos(in.Pos()), "default special key written as a literal instead of the variable "+vn+": SetGlobalKeyMapPrefix no longer affects this site")
				}
			}
			switch x := in.(type) {
			case *ssa.Lookup:
				check(x.Index, "map key")
			case *ssa.MapUpdate:
				check(x.Key, "map key")
			case *ssa.BinOp:
				if x.Op == token.EQL || x.Op == token.NEQ {
					check(x.X, "comparison")
					check(x.Y, "comparison")
				}
			case ssa.CallInstruction:
				if isCallTo(x.Common(), "strings.HasPrefix", "strings.Index", "strings.Contains") {
					check(x.Common().Args[1], "prefix test")
				}
			}
		})
	}
	// positive side: the key variables are read by decoder and encoder
	l := p.globalLoaders()
	for _, pair := range [][2]string{{"mxj.textK", "mxj.xmlToMapParser"}, {"mxj.textK", "mxj.marshalMapToXmlIndent"}, {"mxj.textK", "mxj.xmlSeqToMapParser"}, {"mxj.textK", "mxj.mapToXmlSeqIndent"},
		{"mxj.seqK", "mxj.xmlSeqToMapParser"}, {"mxj.seqK", "mxj.mapToXmlSeqIndent"}, {"mxj.attrK", "mxj.xmlSeqToMapParser"}, {"mxj.attrK", "mxj.mapToXmlSeqIndent"},
		{"mxj.commentK", "mxj.xmlSeqToMapParser"}, {"mxj.commentK", "mxj.mapToXmlSeqIndent"}, {"mxj.directiveK", "mxj.xmlSeqToMapParser"}, {"mxj.directiveK", "mxj.mapToXmlSeqIndent"},
		{"mxj.procinstK", "mxj.xmlSeqToMapParser"}, {"mxj.procinstK", "mxj.mapToXmlSeqIndent"}, {"mxj.attrPrefix", "mxj.xmlToMapParser"}, {"mxj.attrPrefix", "mxj.marshalMapToXmlIndent"}} {
		g, f := p.Globals[pair[0]], p.Fn(pair[1])
		if g == nil || f == nil {
			r.Anchor(rule, pair[0]+"/"+pair[1])
			continue
		}
		reads := l[g][f]
		if !reads {
			// through an unexported helper the function calls (two levels)
			var via func(fn *ssa.Function, d int) bool
			via = func(fn *ssa.Function, d int) bool {
				found := false
				eachInstr(fn, func(b *ssa.BasicBlock, in ssa.Instruction) {
					c, ok := in.(ssa.CallInstruction)
					if !ok || found {
						return
					}
					h := staticCallee(c.Common())
					if h == nil || h == fn || !p.InModule(h) || p.Exported(h) {
						return
					}
					if l[g][h] || d < 2 && via(h, d+1) {
						found = true
					}
				})
				return found
			}
			reads = via(f, 1)
		}
		if reads {
			r.OK(rule, pair[1], "reads "+pair[0], p.Pos(f.Pos()), "shared key variable used")
		} else {
			r.Bad(rule, pair[1], "reads "+pair[0], p.Pos(f.Pos()), "this half of the codec does not read the shared key variable")
		}
	}
	if n == 0 {
		r.OK(rule, "mxj", "no literal special keys", "", "no function of the core package uses a default special key as a string literal")
	}
}

// ---- TABLE.norewrite ----------------------------------------------------------------------------------------------------

func ruleTableNoRewrite(p *Prog, r *Report) {
	const rule = "TABLE.norewrite"
	for _, n := range []string{"mxj.Map.Json", "mxj.Map.JsonIndent"} {
		fn := p.Fn(n)
		if fn == nil {
			r.Anchor(rule, n)
			continue
		}
		var rewrites []string
		encoder := false
		// follow tail calls into module helpers (depth-bounded): the bytes are produced where the encoder is called
		var scan func(f *ssa.Function, depth int)
		scan = func(f *ssa.Function, depth int) {
			eachInstr(f, func(b *ssa.BasicBlock, in ssa.Instruction) {
				ret, ok := in.(*ssa.Return)
				if !ok {
					return
				}
				for v := range backwardSlice(f, ret.Results[0]) {
					c, ok := v.(*ssa.Call)
					if !ok {
						continue
					}
					g := staticCallee(&c.Call)
					if g == nil {
						continue
					}
					if p.InModule(g) {
						if depth < 3 && g != f {
							scan(g, depth+1)
						}
						continue
					}
					nm := extName(g)
					if hasPrefixAny(nm, "bytes.Replace", "strings.Replace", "bytes.Map", "strings.Map", "(*regexp.Regexp).Replace", "(*strings.Replacer).") {
						rewrites = append(rewrites, nm+" at "+p.Pos(c.Pos()))
					}
					if hasPrefixAny(nm, "encoding/json.Marshal") {
						encoder = true
					}
					if nm == "(*bytes.Buffer).Bytes" {
						// the buffer must be the one an encoding/json Encoder writes to
						eachInstr(f, func(b2 *ssa.BasicBlock, i2 ssa.Instruction) {
							if c2, ok := i2.(*ssa.Call); ok && isCallTo(&c2.Call, "encoding/json.NewEncoder") {
								if mi, ok := c2.Call.Args[0].(*ssa.MakeInterface); ok && mi.X == c.Call.Args[0] {
									encoder = true
								}
							}
						})
					}
				}
			})
		}
		scan(fn, 0)
		// the buffer an encoding/json Encoder writes to receives nothing else: a document partly assembled by hand (keys quoted with
		// strconv, braces and commas written directly) is not what encoding/json produces
		seenF := map[*ssa.Function]bool{}
		var scanHand func(f *ssa.Function, depth int)
		scanHand = func(f *ssa.Function, depth int) {
			if seenF[f] || depth > 3 {
				return
			}
			seenF[f] = true
			var encBufs []ssa.Value
			eachInstr(f, func(b *ssa.BasicBlock, in ssa.Instruction) {
				if c, ok := in.(*ssa.Call); ok {
					if isCallTo(&c.Call, "encoding/json.NewEncoder") {
						if mi, ok := c.Call.Args[0].(*ssa.MakeInterface); ok {
							encBufs = append(encBufs, mi.X)
						}
					}
					if g := staticCallee(&c.Call); g != nil && p.InModule(g) && !p.Exported(g) {
						scanHand(g, depth+1)
					}
				}
			})
			eachInstr(f, func(b *ssa.BasicBlock, in ssa.Instruction) {
				c, ok := in.(*ssa.Call)
				if !ok || len(c.Call.Args) == 0 {
					return
				}
				for _, eb := range encBufs {
					if isCallTo(&c.Call, "(*bytes.Buffer).WriteString", "(*bytes.Buffer).WriteByte", "(*bytes.Buffer).WriteRune", "(*bytes.Buffer).Write") && c.Call.Args[0] == eb {
						rewrites = append(rewrites, "direct "+extName(staticCallee(&c.Call))+" into the encoder's buffer at "+p.Pos(c.Pos()))
					}
					if isCallTo(&c.Call, "fmt.Fprintf", "fmt.Fprint", "fmt.Fprintln", "io.WriteString") {
						if mi, ok := c.Call.Args[0].(*ssa.MakeInterface); ok && mi.X == eb {
							rewrites = append(rewrites, "direct write into the encoder's buffer at "+p.Pos(c.Pos()))
						}
					}
				}
			})
		}
		scanHand(fn, 0)
		if len(rewrites) > 0 {
			r.Bad(rule, n, "encoded bytes are not rewritten", p.Pos(fn.Pos()), "the document produced by encoding/json is post-processed textually ("+strings.Join(uniq(rewrites), "; ")+"): string values that contain the replaced sequences are corrupted")
		} else if encoder {
			r.OK(rule, n, "encoded bytes are not rewritten", p.Pos(fn.Pos()), "returned bytes come from the encoding/json encoder without textual substitution")
		} else {
			r.Unknown(rule, n, "encoded bytes are not rewritten", p.Pos(fn.Pos()), "returned bytes do not derive from an encoding/json encoder")
		}
		// safeEncoding selects the HTML-escaping mode
		va := variadicParam(fn)
		if va == nil {
			r.Unknown(rule, n, "safeEncoding selects the escaping mode", p.Pos(fn.Pos()), "no variadic parameter")
			continue
		}
		sel := false
		var follow func(f *ssa.Function, seed ssa.Value, depth int)
		follow = func(f *ssa.Function, seed ssa.Value, depth int) {
			for in := range forwardSlice(f, seed) {
				switch x := in.(type) {
				case ssa.CallInstruction:
					cm := x.Common()
					if isCallTo(cm, "(*encoding/json.Encoder).SetEscapeHTML") {
						sel = true
					}
					if g := staticCallee(cm); g != nil && p.InModule(g) && depth < 3 {
						sl := forwardSlice(f, seed)
						for i, a := range cm.Args {
							if ai, ok := a.(ssa.Instruction); ok && sl[ai] && i < len(g.Params) {
								follow(g, g.Params[i], depth+1)
							}
							if a == seed && i < len(g.Params) {
								follow(g, g.Params[i], depth+1)
							}
						}
					}
				}
			}
		}
		follow(fn, va, 0)
		// other accepted idiom: the document is post-processed with json.HTMLEscape on every successful path on which the
		// option may be on
		escWhy := ""
		if !sel {
			var viaEscape func(f *ssa.Function, seed ssa.Value, depth int) bool
			viaEscape = func(f *ssa.Function, seed ssa.Value, depth int) bool {
				flags := map[ssa.Value]bool{}
				if isBoolType(seed.Type()) {
					flags[seed] = true
				}
				sl := forwardSlice(f, seed)
				for in := range sl {
					if v, ok := in.(ssa.Value); ok && isBoolType(v.Type()) {
						flags[v] = true
					}
				}
				escBlk := map[*ssa.BasicBlock]bool{}
				eachInstr(f, func(b *ssa.BasicBlock, in ssa.Instruction) {
					if c, ok := in.(ssa.CallInstruction); ok && isCallTo(c.Common(), "encoding/json.HTMLEscape") {
						escBlk[b] = true
					}
				})
				if len(escBlk) > 0 {
					paths, ok := enumPaths(f, 1024)
					if !ok {
						return false
					}
					for _, pt := range paths {
						last := pt.Blocks[len(pt.Blocks)-1]
						ret, isRet := last.Instrs[len(last.Instrs)-1].(*ssa.Return)
						if !isRet || len(ret.Results) == 0 || isNilConst(ret.Results[0]) {
							continue
						}
						off := false
						for _, c := range pt.Conds {
							if v, val := boolTest(c); flags[v] && !val {
								off = true
							}
						}
						if off {
							continue
						}
						through := false
						for _, b := range pt.Blocks {
							if escBlk[b] {
								through = true
							}
						}
						if !through {
							escWhy = "json.HTMLEscape is applied on some paths only: the path returning at " + p.Pos(ret.Pos()) + " can be taken with safe encoding requested and does not escape"
							return false
						}
					}
					return true
				}
				for in := range sl {
					c, ok := in.(ssa.CallInstruction)
					if !ok {
						continue
					}
					cm := c.Common()
					if g := staticCallee(cm); g != nil && p.InModule(g) && depth < 3 {
						for i, a := range cm.Args {
							ai, isI := a.(ssa.Instruction)
							if i < len(g.Params) && (a == seed || isI && sl[ai]) {
								if viaEscape(g, g.Params[i], depth+1) {
									return true
								}
							}
						}
					}
				}
				return false
			}
			if viaEscape(fn, va, 0) {
				sel = true
			}
		}
		if sel {
			r.OK(rule, n, "safeEncoding selects the escaping mode", p.Pos(fn.Pos()), "the option value reaches json.Encoder.SetEscapeHTML, or json.HTMLEscape is applied on every path on which the option may be on")
		} else if escWhy != "" {
			r.Bad(rule, n, "safeEncoding selects the escaping mode", p.Pos(fn.Pos()), escWhy)
		} else {
			r.Bad(rule, n, "safeEncoding selects the escaping mode", p.Pos(fn.Pos()), "the option does not reach json.Encoder.SetEscapeHTML: it has no influence on the escaping of <, > and &")
		}
	}
}

// ---- TABLE.gob ----------------------------------------------------------------------------------------------------------------

func ruleTableGob(p *Prog, r *Report) {
	const rule = "TABLE.gob"
	enc, dec := p.Fn("mxj.Map.Gob"), p.Fn("mxj.NewMapGob")
	if enc == nil || dec == nil {
		r.Anchor(rule, "mxj.Map.Gob/NewMapGob")
		return
	}
	var encT, decT types.Type
	// the Encode / Decode call may live in an unexported helper of the function
	inScope := func(root *ssa.Function, visit func(b *ssa.BasicBlock, in ssa.Instruction)) {
		var fs []*ssa.Function
		for f := range p.Reach(root) {
			if p.InModule(f) && len(f.Blocks) > 0 && (f == root || !p.Exported(f)) {
				fs = append(fs, f)
			}
		}
		sort.Slice(fs, func(i, j int) bool { return p.Name(fs[i]) < p.Name(fs[j]) })
		for _, f := range fs {
			eachInstr(f, visit)
		}
	}
	inScope(enc, func(b *ssa.BasicBlock, in ssa.Instruction) {
		if c, ok := in.(ssa.CallInstruction); ok && isCallTo(c.Common(), "(*encoding/gob.Encoder).Encode") {
			if mi, ok := c.Common().Args[1].(*ssa.MakeInterface); ok {
				encT = mi.X.Type()
			}
		}
	})
	inScope(dec, func(b *ssa.BasicBlock, in ssa.Instruction) {
		if c, ok := in.(ssa.CallInstruction); ok && isCallTo(c.Common(), "(*encoding/gob.Decoder).Decode") {
			if mi, ok := c.Common().Args[1].(*ssa.MakeInterface); ok {
				decT = derefType(mi.X.Type())
			}
		}
	})
	if encT != nil && decT != nil && types.Identical(encT, decT) {
		r.OK(rule, "mxj.Map.Gob", "encode/decode type agreement", p.Pos(enc.Pos()), "Encode receives "+typeStr(encT)+", Decode fills a *"+typeStr(decT))
	} else {
		r.Bad(rule, "mxj.Map.Gob", "encode/decode type agreement", p.Pos(enc.Pos()), fmt.Sprintf("Encode receives %v, Decode fills a pointer to %v", encT, decT))
	}
	// registration of the container types carried inside interface{} values
	reg := map[string]bool{}
	for _, f := range p.allFuncsWithInit() {
		nm := f.Name()
		if !(isPkgInit(f) || strings.HasPrefix(nm, "init#") || nm == "init") {
			continue
		}
		if f.Pkg != p.SPkgs["mxj"] {
			continue
		}
		eachInstr(f, func(b *ssa.BasicBlock, in ssa.Instruction) {
			if c, ok := in.(ssa.CallInstruction); ok && isCallTo(c.Common(), "encoding/gob.Register") {
				if mi, ok := c.Common().Args[0].(*ssa.MakeInterface); ok {
					reg[typeStr(mi.X.Type())] = true
				}
			}
		})
	}
	for _, want := range []string{"map[string]interface{}", "[]interface{}"} {
		if reg[want] {
			r.OK(rule, "mxj.init", "gob.Register("+want+")", "", "registered at package initialisation")
		} else {
			r.Bad(rule, "mxj.init", "gob.Register("+want+")", p.Pos(enc.Pos()), "values of type "+want+" nested inside a Map travel as interface{} values; encoding/gob refuses unregistered concrete types, so Gob() fails on every Map that has nesting")
		}
	}
}

// ---- TABLE.partition --------------------------------------------------------------------------------------------------------------

// ruleTablePartition: in the Map encoder the predicate that takes a key as attribute (first scan) and the predicate that
// skips it in the element scan consist of the same atoms over the key and the option variables.
func ruleTablePartition(p *Prog, r *Report) {
	const rule = "TABLE.partition"
	fn := p.Fn("mxj.marshalMapToXmlIndent")
	if fn == nil {
		r.Anchor(rule, "mxj.marshalMapToXmlIndent")
		return
	}
	cz := p.canonFor(fn)
	loops := findMapLoops(fn)
	sort.SliceStable(loops, func(i, j int) bool { return loops[i].pos < loops[j].pos })
	var scans []mapLoop
	for _, l := range loops {
		if l.next != nil {
			scans = append(scans, l)
		}
	}
	if len(scans) != 2 {
		r.Unknown(rule, p.Name(fn), "two key scans", p.Pos(fn.Pos()), fmt.Sprintf("expected the attribute scan and the element scan over the same map, found %d map ranges", len(scans)))
		return
	}
	if cz.of(scans[0].src) != cz.of(scans[1].src) {
		r.Bad(rule, p.Name(fn), "two key scans", p.Pos(fn.Pos()), "the two scans range over different maps")
		return
	}
	// The two scans must classify every key the same way. Each scan's key tests are read as a boolean function of normalised
	// atoms (only `<` and `==`, operands in canonical form with the loop key written KEY): starting at the loop body the branch
	// structure is followed for every assignment of the atoms until a block that is not a key test is reached; reaching the loop
	// header means "this key is skipped". A key is an attribute iff the first scan does not skip it, and the second scan must
	// skip exactly those keys (and the text key).
	type scanFn struct {
		atoms    []string
		eval     func(assign map[string]bool) (skipped bool, ok bool)
		textSkip bool
	}
	build := func(l mapLoop) *scanFn {
		var key ssa.Value
		var okFlag ssa.Value
		for _, ref := range *l.next.Referrers() {
			if ex, isEx := ref.(*ssa.Extract); isEx {
				switch ex.Index {
				case 0:
					okFlag = ex
				case 1:
					key = ex
				}
			}
		}
		if key == nil || okFlag == nil {
			return nil
		}
		kc := cz.of(key)
		sf := &scanFn{}
		norm := func(cond ssa.Value) (string, bool, bool) { // atom, polarity, isKeyAtom
			ng := normGuard(guard{cond, true})
			bo, isBo := ng.Cond.(*ssa.BinOp)
			if !isBo {
				return "", false, false
			}
			x, y := strings.ReplaceAll(cz.of(bo.X), kc, "KEY"), strings.ReplaceAll(cz.of(bo.Y), kc, "KEY")
			if !strings.Contains(x+y, "KEY") && !strings.Contains(x+y, "AttrPrefix") && !strings.Contains(x+y, "attrPrefix") {
				return "", false, false
			}
			pol := ng.Pol
			var atom string
			switch bo.Op {
			case token.LSS:
				atom = x + " < " + y
			case token.GTR:
				atom = y + " < " + x
			case token.LEQ:
				atom, pol = y+" < "+x, !pol
			case token.GEQ:
				atom, pol = x+" < "+y, !pol
			case token.EQL, token.NEQ:
				if x > y {
					x, y = y, x
				}
				atom = x + " == " + y
				if bo.Op == token.NEQ {
					pol = !pol
				}
			default:
				return "", false, false
			}
			return atom, pol, true
		}
		// body entry: the successor of the header taken when the iterator delivered a pair
		var entry *ssa.BasicBlock
		if ifi, isIf := l.header.Instrs[len(l.header.Instrs)-1].(*ssa.If); isIf && normGuard(guard{ifi.Cond, true}).Cond == okFlag {
			entry = l.header.Succs[0]
		}
		if entry == nil {
			return nil
		}
		seenAtom := map[string]bool{}
		for b := range l.body {
			if ifi, isIf := b.Instrs[len(b.Instrs)-1].(*ssa.If); isIf {
				if a, _, isKey := norm(ifi.Cond); isKey {
					if strings.Contains(a, "load(mxj.textK)") {
						sf.textSkip = true
						continue
					}
					if !seenAtom[a] {
						seenAtom[a] = true
						sf.atoms = append(sf.atoms, a)
					}
				}
			}
		}
		sort.Strings(sf.atoms)
		sf.eval = func(assign map[string]bool) (bool, bool) {
			b := entry
			for steps := 0; steps < 64; steps++ {
				if b == l.header {
					return true, true
				}
				if !l.body[b] {
					return false, false // left the loop: an error return, not a classification
				}
				last := b.Instrs[len(b.Instrs)-1]
				switch t := last.(type) {
				case *ssa.If:
					a, pol, isKey := norm(t.Cond)
					if !isKey {
						return false, true
					}
					if strings.Contains(a, "load(mxj.textK)") {
						// classify keys other than the text key: take the "not equal" edge
						if pol {
							b = b.Succs[1]
						} else {
							b = b.Succs[0]
						}
						continue
					}
					v, have := assign[a]
					if !have {
						return false, false
					}
					if v == pol {
						b = b.Succs[0]
					} else {
						b = b.Succs[1]
					}
				case *ssa.Jump:
					// a block that only forwards (or only evaluates operands of the next test) is passed through
					pure := true
					for _, in := range b.Instrs[:len(b.Instrs)-1] {
						switch in.(type) {
						case *ssa.Store, *ssa.MapUpdate, ssa.CallInstruction:
							if c, isCall := in.(*ssa.Call); isCall {
								if _, isBi := c.Call.Value.(*ssa.Builtin); isBi {
									continue
								}
							}
							pure = false
						}
					}
					if !pure {
						return false, true
					}
					b = b.Succs[0]
				default:
					return false, true
				}
			}
			return false, false
		}
		return sf
	}
	s1, s2 := build(scans[0]), build(scans[1])
	if s1 == nil || s2 == nil {
		r.Unknown(rule, p.Name(fn), "attribute predicate agrees between the scans", p.Pos(fn.Pos()), "the key tests of a scan could not be read")
		return
	}
	textSkip := s2.textSkip
	if strings.Join(s1.atoms, " ; ") != strings.Join(s2.atoms, " ; ") || len(s1.atoms) == 0 || len(s1.atoms) > 6 {
		r.Bad(rule, p.Name(fn), "attribute predicate agrees between the scans", p.Pos(fn.Pos()), fmt.Sprintf("attribute scan tests %v, element scan tests %v: a key can be emitted twice or dropped", s1.atoms, s2.atoms))
	} else {
		na := len(s1.atoms)
		agree, nAttr := true, 0
		bad := ""
		for m := 0; m < 1<<na; m++ {
			assign := map[string]bool{}
			for i, a := range s1.atoms {
				assign[a] = m&(1<<i) != 0
			}
			sk1, ok1 := s1.eval(assign)
			sk2, ok2 := s2.eval(assign)
			if !ok1 || !ok2 {
				agree = false
				bad = fmt.Sprintf("classification not readable for %v", assign)
				break
			}
			if !sk1 {
				nAttr++
			}
			if sk1 == sk2 {
				agree = false
				bad = fmt.Sprintf("for %v the attribute scan %s the key and the element scan %s it", assign, map[bool]string{true: "skips", false: "takes"}[sk1], map[bool]string{true: "skips", false: "takes"}[sk2])
				break
			}
		}
		if agree && nAttr > 0 && nAttr < 1<<na {
			r.OK(rule, p.Name(fn), "attribute predicate agrees between the scans", p.Pos(fn.Pos()), fmt.Sprintf("both scans read the atoms %s; for all %d truth assignments the element scan skips exactly the keys the attribute scan takes", strings.Join(s1.atoms, " ; "), 1<<na))
		} else {
			if bad == "" {
				bad = "one of the scans classifies every key the same way"
			}
			r.Bad(rule, p.Name(fn), "attribute predicate agrees between the scans", p.Pos(fn.Pos()), bad+": a key can be emitted twice or dropped")
		}
	}
	ks := func(m []string) []string { return m }
	a1 := s1.atoms
	if textSkip {
		r.OK(rule, p.Name(fn), "text key skipped in the element scan", p.Pos(fn.Pos()), "the element scan tests the key against textK")
	} else {
		r.Bad(rule, p.Name(fn), "text key skipped in the element scan", p.Pos(fn.Pos()), "the text entry would be emitted as a child element as well as content")
	}
	// both predicates read the same option variables as the decoder writes the prefix with
	for _, a := range ks(a1) {
		if strings.Contains(a, "lenAttrPrefix") || strings.Contains(a, "attrPrefix") {
			return
		}
	}
	r.Bad(rule, p.Name(fn), "attribute predicate uses the attribute prefix", p.Pos(fn.Pos()), "the attribute test does not involve attrPrefix/lenAttrPrefix")
}

var _ = strconv.Itoa

// isRangeIndex: v is the index of an ascending `for range` loop as go/ssa builds it: i = phi(-1, i) + 1.
func isRangeIndex(v ssa.Value) bool {
	bo, ok := v.(*ssa.BinOp)
	if !ok || bo.Op != token.ADD {
		return false
	}
	if k, isK := constInt(bo.Y); !isK || k != 1 {
		return false
	}
	ph, ok := bo.X.(*ssa.Phi)
	if !ok || len(ph.Edges) < 2 {
		return false
	}
	start := 0
	for _, e := range ph.Edges {
		if k, isK := constInt(e); isK && k == -1 {
			start++
		} else if e != ssa.Value(bo) {
			return false
		}
	}
	return start == 1
}

// escapeTableVar: the name of the package variable holding the escape table — `escapechars`, or, where that name is gone, the
// one package variable of the core package that the escaping function (or a helper it calls) reads and nothing but its
// initialiser writes.
func (p *Prog) escapeTableVar() string {
	if v, ok := p.facts["esctabvar"]; ok {
		return v.(string)
	}
	name := "escapechars"
	p.facts["esctabvar"] = name
	if p.Globals["mxj.escapechars"] != nil {
		return name
	}
	fn := p.Fn("mxj.escapeChars")
	if fn == nil {
		return name
	}
	cands := map[string]bool{}
	scan := func(f *ssa.Function) {
		eachInstr(f, func(b *ssa.BasicBlock, in ssa.Instruction) {
			if u, ok := in.(*ssa.UnOp); ok {
				if g := globalOf(u); g != nil && g.Pkg == fn.Pkg && p.stableGlobal(g) && !isBoolType(derefType(g.Type())) {
					cands[g.Name()] = true
				}
			}
		})
	}
	scan(fn)
	eachInstr(fn, func(b *ssa.BasicBlock, in ssa.Instruction) {
		if c, ok := in.(ssa.CallInstruction); ok {
			if h := staticCallee(c.Common()); h != nil && p.InModule(h) && !p.Exported(h) && len(h.Blocks) > 0 {
				scan(h)
			}
		}
	})
	if len(cands) == 1 {
		for n := range cands {
			name = n
		}
	}
	p.facts["esctabvar"] = name
	return name
}

// tableScanExclusions: h(s) is `lower := strings.ToLower(s); for _, lit := range T { if lower == lit { return true } }; return false`
// over a package-level array T of constant strings that only its initialiser writes: a false answer means the folded input
// differs from every entry. Returns the entries (nil if h is not of that form).
func (p *Prog) tableScanExclusions(h *ssa.Function) []string {
	key := fmt.Sprintf("tabscan:%p", h)
	if v, ok := p.facts[key]; ok {
		return v.([]string)
	}
	var out []string
	p.facts[key] = out
	if len(h.Params) != 1 || !isStringType(h.Params[0].Type()) {
		return nil
	}
	var tab *ssa.Global
	var eq *ssa.BinOp
	okForm := true
	eachInstr(h, func(b *ssa.BasicBlock, in ssa.Instruction) {
		bo, ok := in.(*ssa.BinOp)
		if !ok || bo.Op != token.EQL || !isStringType(bo.X.Type()) {
			return
		}
		side := func(v ssa.Value) *ssa.Global {
			// an element of the array value itself: (*T)[i]
			if ix, isIx := v.(*ssa.Index); isIx && isRangeIndex(ix.Index) {
				return globalOf(ix.X)
			}
			u, ok := v.(*ssa.UnOp)
			if !ok {
				return nil
			}
			ia, ok := u.X.(*ssa.IndexAddr)
			if !ok || !isRangeIndex(ia.Index) {
				return nil
			}
			if g, ok := ia.X.(*ssa.Global); ok {
				return g
			}
			return globalOf(ia.X)
		}
		folded := func(v ssa.Value) bool {
			c, ok := v.(*ssa.Call)
			return ok && isCallTo(&c.Call, "strings.ToLower") && c.Call.Args[0] == ssa.Value(h.Params[0])
		}
		switch {
		case side(bo.Y) != nil && folded(bo.X):
			tab, eq = side(bo.Y), bo
		case side(bo.X) != nil && folded(bo.Y):
			tab, eq = side(bo.X), bo
		}
	})
	if tab == nil || eq == nil || !p.stableGlobal(tab) {
		return nil
	}
	eachInstr(h, func(b *ssa.BasicBlock, in ssa.Instruction) {
		ret, ok := in.(*ssa.Return)
		if !ok || len(ret.Results) != 1 {
			return
		}
		bv, isC := constBool(ret.Results[0])
		if !isC {
			okForm = false
			return
		}
		if bv {
			under := false
			for _, g := range dominatingGuards(b) {
				if g.Cond == ssa.Value(eq) && g.Pol {
					under = true
				}
			}
			if !under {
				okForm = false
			}
		}
	})
	if !okForm {
		return nil
	}
	for _, f := range p.allFuncsWithInit() {
		eachInstr(f, func(b *ssa.BasicBlock, in ssa.Instruction) {
			st, ok := in.(*ssa.Store)
			if !ok {
				return
			}
			ia, ok := st.Addr.(*ssa.IndexAddr)
			if !ok || ia.X != ssa.Value(tab) {
				return
			}
			if sv, isS := constString(st.Val); isS {
				out = append(out, sv)
			} else {
				okForm = false
			}
		})
	}
	if !okForm || len(out) == 0 {
		return nil
	}
	p.facts[key] = out
	return out
}
