// Package chk is the mxj-specific static checker: loader, shared facts and rule families.
package chk

import (
	"fmt"
	"go/token"
	"go/types"
	"os"
	"path/filepath"
	"sort"
	"strings"

	"golang.org/x/tools/go/packages"
	"golang.org/x/tools/go/ssa"
	"golang.org/x/tools/go/ssa/ssautil"
)

// Aliases for the four library packages (x2j and x2j-wrapper both declare "package x2j").
var pkgAlias = map[string]string{
	"github.com/clbanning/mxj/v2":             "mxj",
	"github.com/clbanning/mxj/v2/j2x":         "j2x",
	"github.com/clbanning/mxj/v2/x2j":         "x2j",
	"github.com/clbanning/mxj/v2/x2j-wrapper": "x2jw",
}

// Config selects the build configuration the repository is loaded under.
type Config struct {
	Repo   string
	Tags   string
	GOARCH string
}

// Prog is the loaded, type-checked, SSA-built repository.
type Prog struct {
	Cfg   Config
	Fset  *token.FileSet
	Pkgs  map[string]*packages.Package // by alias
	SSA   *ssa.Program
	SPkgs map[string]*ssa.Package // by alias
	// Funcs: every source function (incl. methods, anonymous functions and init) of the four packages by qualified name.
	Funcs     map[string]*ssa.Function
	FuncList  []*ssa.Function // sorted by name
	nameOf    map[*ssa.Function]string
	Globals   map[string]*ssa.Global // "mxj.attrPrefix"
	facts     map[string]interface{} // memoised shared analyses
	NumFiles  int
	LoadNotes []string
	cellVal   map[*ssa.FreeVar]ssa.Value // promoted read-only captured variables (cells.go)
}

// Load type-checks /repo's four library packages from the working tree and builds SSA.
func Load(cfg Config) (*Prog, error) {
	env := append(os.Environ(),
		"GOFLAGS=-mod=mod", "GOPROXY=off", "GOSUMDB=off", "GOTOOLCHAIN=local", "GOWORK=off", "CGO_ENABLED=0")
	if cfg.GOARCH != "" {
		env = append(env, "GOARCH="+cfg.GOARCH)
	}
	pc := &packages.Config{
		Mode:  packages.LoadAllSyntax,
		Dir:   cfg.Repo,
		Env:   env,
		Tests: false,
	}
	if cfg.Tags != "" {
		pc.BuildFlags = []string{"-tags=" + cfg.Tags}
	}
	initial, err := packages.Load(pc, ".", "./j2x", "./x2j", "./x2j-wrapper")
	if err != nil {
		return nil, fmt.Errorf("packages.Load: %v", err)
	}
	p := &Prog{Cfg: cfg, Pkgs: map[string]*packages.Package{}, SPkgs: map[string]*ssa.Package{},
		Funcs: map[string]*ssa.Function{}, nameOf: map[*ssa.Function]string{}, Globals: map[string]*ssa.Global{},
		facts: map[string]interface{}{}}
	var errs []string
	packages.Visit(initial, nil, func(pk *packages.Package) {
		for _, e := range pk.Errors {
			errs = append(errs, e.Error())
		}
	})
	if len(errs) > 0 {
		return nil, fmt.Errorf("type-check errors in %s: %s", cfg.Repo, strings.Join(errs, "; "))
	}
	for _, pk := range initial {
		a, ok := pkgAlias[pk.PkgPath]
		if !ok {
			return nil, fmt.Errorf("unexpected package %s", pk.PkgPath)
		}
		p.Pkgs[a] = pk
		p.NumFiles += len(pk.Syntax)
		p.Fset = pk.Fset
	}
	if len(p.Pkgs) != 4 {
		return nil, fmt.Errorf("expected 4 library packages, loaded %d", len(p.Pkgs))
	}
	prog, spkgs := ssautil.AllPackages(initial, ssa.InstantiateGenerics)
	prog.Build()
	p.SSA = prog
	for i, pk := range initial {
		if spkgs[i] == nil {
			return nil, fmt.Errorf("no SSA package for %s", pk.PkgPath)
		}
		p.SPkgs[pkgAlias[pk.PkgPath]] = spkgs[i]
	}
	// enumerate functions
	for alias, sp := range p.SPkgs {
		for _, mem := range sp.Members {
			switch m := mem.(type) {
			case *ssa.Function:
				p.addFunc(alias, m)
			case *ssa.Global:
				p.Globals[alias+"."+m.Name()] = m
			case *ssa.Type:
				nt, ok := m.Type().(*types.Named)
				if !ok {
					continue
				}
				for _, T := range []types.Type{nt, types.NewPointer(nt)} {
					ms := prog.MethodSets.MethodSet(T)
					for i := 0; i < ms.Len(); i++ {
						fn := prog.MethodValue(ms.At(i))
						if fn == nil || fn.Synthetic != "" || fn.Pkg != sp {
							continue
						}
						p.addFunc(alias, fn)
					}
				}
			}
		}
	}
	if len(p.Funcs) == 0 {
		return nil, fmt.Errorf("no functions loaded")
	}
	for _, f := range p.Funcs {
		p.FuncList = append(p.FuncList, f)
	}
	sort.Slice(p.FuncList, func(i, j int) bool { return p.nameOf[p.FuncList[i]] < p.nameOf[p.FuncList[j]] })
	p.promoteCells()
	return p, nil
}

func (p *Prog) addFunc(alias string, fn *ssa.Function) {
	if _, ok := p.nameOf[fn]; ok {
		return
	}
	if fn.Blocks == nil && fn.Synthetic == "" {
		// external (assembly) function: keep, but nothing to analyse
	}
	name := alias + "."
	if recv := fn.Signature.Recv(); recv != nil {
		t := recv.Type()
		if pt, ok := t.(*types.Pointer); ok {
			t = pt.Elem()
		}
		if nt, ok := t.(*types.Named); ok {
			name += nt.Obj().Name() + "."
		}
	}
	name += fn.Name()
	p.Funcs[name] = fn
	p.nameOf[fn] = name
	for _, an := range fn.AnonFuncs {
		p.addAnon(name, an)
	}
}

func (p *Prog) addAnon(parent string, fn *ssa.Function) {
	name := parent + "$" + strings.TrimPrefix(fn.Name(), fn.Parent().Name()+"$")
	p.Funcs[name] = fn
	p.nameOf[fn] = name
	for _, an := range fn.AnonFuncs {
		p.addAnon(name, an)
	}
}

// Name returns the qualified name of a module function, or the full SSA name of an external one.
func (p *Prog) Name(fn *ssa.Function) string {
	if fn == nil {
		return "<nil>"
	}
	if n, ok := p.nameOf[fn]; ok {
		return n
	}
	return fn.String()
}

// InModule reports whether fn is a source function of one of the four packages.
func (p *Prog) InModule(fn *ssa.Function) bool {
	_, ok := p.nameOf[fn]
	return ok
}

// Pos renders a position relative to the repository root.
func (p *Prog) Pos(pos token.Pos) string {
	if !pos.IsValid() {
		return "-"
	}
	ps := p.Fset.Position(pos)
	rel, err := filepath.Rel(p.Cfg.Repo, ps.Filename)
	if err != nil {
		rel = ps.Filename
	}
	return fmt.Sprintf("%s:%d:%d", rel, ps.Line, ps.Column)
}

// Fn resolves a function by qualified name.
func (p *Prog) Fn(name string) *ssa.Function { return p.Funcs[name] }

// PkgFuncs returns the functions of one package alias, sorted.
func (p *Prog) PkgFuncs(alias string) []*ssa.Function {
	var out []*ssa.Function
	for _, f := range p.FuncList {
		if strings.HasPrefix(p.nameOf[f], alias+".") {
			out = append(out, f)
		}
	}
	return out
}

// Exported reports whether fn is an exported function or an exported method of an exported type.
func (p *Prog) Exported(fn *ssa.Function) bool {
	if fn.Parent() != nil || fn.Object() == nil || !fn.Object().Exported() {
		return false
	}
	if recv := fn.Signature.Recv(); recv != nil {
		t := recv.Type()
		if pt, ok := t.(*types.Pointer); ok {
			t = pt.Elem()
		}
		if nt, ok := t.(*types.Named); ok {
			return nt.Obj().Exported()
		}
	}
	return true
}
