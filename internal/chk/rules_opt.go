package chk

import (
	"fmt"
	"go/token"
	"go/types"
	"sort"
	"strings"

	"golang.org/x/tools/go/ssa"
)

// ===== family L: OPT — option state ===========================================================

// isPkgInit: the synthetic package initialiser or a declared func init() (named init#N by go/ssa).
func isPkgInit(fn *ssa.Function) bool {
	return fn.Name() == "init" && fn.Synthetic != "" || strings.HasPrefix(fn.Name(), "init#") && fn.Parent() == nil && fn.Signature.Recv() == nil
}

// ruleOptWriters: every package-level variable is an option (stored only by init and its named
// setters), a user-assignable exported variable (never stored by the module) or a read-only
// table/sentinel (stored only by init). Anything else is hidden mutable state.
func ruleOptWriters(p *Prog, r *Report) {
	const rule = "OPT.writers"
	w := p.globalWriters()
	var names []string
	for n := range p.Globals {
		names = append(names, n)
	}
	sort.Strings(names)
	for _, n := range names {
		g := p.Globals[n]
		if strings.HasPrefix(g.Name(), "init$") {
			continue
		}
		// address taken other than by load/store?
		escaped := ""
		for _, f := range p.allFuncsWithInit() {
			eachInstr(f, func(b *ssa.BasicBlock, in ssa.Instruction) {
				for _, op := range in.Operands(nil) {
					if op == nil || *op != ssa.Value(g) {
						continue
					}
					switch x := in.(type) {
					case *ssa.UnOp:
						if x.Op == token.MUL {
							continue
						}
					case *ssa.Store:
						if x.Addr == ssa.Value(g) {
							continue
						}
					case *ssa.IndexAddr, *ssa.FieldAddr:
						// element/field of an array or struct variable: loads are reads, stores are writes by f
						okUse := true
						for _, ref := range *in.(ssa.Value).Referrers() {
							switch y := ref.(type) {
							case *ssa.UnOp:
								if y.Op != token.MUL {
									okUse = false
								}
							case *ssa.Store:
								if y.Addr == in.(ssa.Value) {
									if w[g] == nil {
										w[g] = map[*ssa.Function]bool{}
									}
									w[g][f] = true
								} else {
									okUse = false
								}
							default:
								okUse = false
							}
						}
						if okUse {
							continue
						}
					}
					// handed to an unexported module helper that only loads and stores through the pointer: the caller is the writer
					if ci, isCall := in.(ssa.CallInstruction); isCall {
						if h := staticCallee(ci.Common()); h != nil && p.InModule(h) && !p.Exported(h) && len(h.Blocks) > 0 {
							okUse, stores := true, false
							for i, a := range ci.Common().Args {
								if a != ssa.Value(g) || i >= len(h.Params) {
									continue
								}
								for _, ref := range *h.Params[i].Referrers() {
									switch y := ref.(type) {
									case *ssa.UnOp:
										if y.Op != token.MUL {
											okUse = false
										}
									case *ssa.Store:
										if y.Addr == ssa.Value(h.Params[i]) {
											stores = true
										} else {
											okUse = false
										}
									case *ssa.DebugRef:
									default:
										okUse = false
									}
								}
							}
							if okUse {
								if stores {
									if w[g] == nil {
										w[g] = map[*ssa.Function]bool{}
									}
									w[g][f] = true
								}
								continue
							}
						}
					}
					escaped = p.Name(f) + " at " + p.Pos(in.Pos())
				}
			})
		}
		if escaped != "" {
			r.Unknown(rule, n, "address taken", p.Pos(g.Pos()), "address of the variable flows somewhere other than a load/store: "+escaped)
			continue
		}
		allowed := map[string]bool{}
		kind := "read-only table/sentinel"
		if ws, ok := optWriters[n]; ok {
			kind = "option"
			for _, s := range ws {
				allowed[s] = true
				if p.Fn(s) == nil {
					r.Anchor(rule, s)
				}
			}
		} else if _, ok := userVars[n]; ok {
			kind = "user-assignable"
		}
		bad := false
		for f := range w[g] {
			if isPkgInit(f) {
				continue
			}
			if allowed[p.Name(f)] {
				continue
			}
			bad = true
			r.Bad(rule, p.Name(f), "store "+n, p.Pos(g.Pos()), fmt.Sprintf("%s variable %s is written by %s, which is not its setter", kind, n, p.Name(f)))
		}
		if !bad {
			r.OK(rule, n, "writers", p.Pos(g.Pos()), kind+": stores only in init and "+strings.Join(optWriters[n], ","))
		}
	}
	for n := range optWriters {
		if p.Globals[n] == nil && !derivedOptionVar[n] {
			r.Anchor(rule, n)
		}
	}
	r.Floor(rule, 30)
}

func (p *Prog) allFuncsWithInit() []*ssa.Function {
	all := append([]*ssa.Function{}, p.FuncList...)
	for _, a := range []string{"mxj", "j2x", "x2j", "x2jw"} {
		if ini := p.SPkgs[a].Func("init"); ini != nil {
			all = append(all, ini)
		}
	}
	return all
}

// globalLoaders: variable -> functions that load it.
func (p *Prog) globalLoaders() map[*ssa.Global]map[*ssa.Function]bool {
	if v, ok := p.facts["gl"]; ok {
		return v.(map[*ssa.Global]map[*ssa.Function]bool)
	}
	l := map[*ssa.Global]map[*ssa.Function]bool{}
	for _, f := range p.FuncList {
		eachInstr(f, func(b *ssa.BasicBlock, in ssa.Instruction) {
			if g := globalOfInstr(in); g != nil {
				if l[g] == nil {
					l[g] = map[*ssa.Function]bool{}
				}
				l[g][f] = true
			}
		})
	}
	p.facts["gl"] = l
	return l
}

func globalOfInstr(in ssa.Instruction) *ssa.Global {
	if v, ok := in.(ssa.Value); ok {
		return globalOf(v)
	}
	return nil
}

// ruleOptDead: an option that nothing reads cannot have its documented effect.
func ruleOptDead(p *Prog, r *Report, aliases ...string) {
	const rule = "OPT.dead"
	l := p.globalLoaders()
	var names []string
	for n := range optWriters {
		names = append(names, n)
	}
	sort.Strings(names)
	for _, n := range names {
		ok := false
		for _, a := range aliases {
			if strings.HasPrefix(n, a+".") {
				ok = true
			}
		}
		if !ok {
			continue
		}
		g := p.Globals[n]
		if g == nil {
			if !derivedOptionVar[n] {
				r.Anchor(rule, n)
			}
			continue
		}
		var readers []string
		for f := range l[g] {
			if !p.isSetter(f) {
				readers = append(readers, p.Name(f))
				continue
			}
			// a master variable: loaded by its setter to derive another option variable that has readers
			eachInstr(f, func(b *ssa.BasicBlock, in ssa.Instruction) {
				if st, ok := in.(*ssa.Store); ok {
					if og, ok := st.Addr.(*ssa.Global); ok && og != g {
						for rf := range l[og] {
							if !p.isSetter(rf) {
								readers = append(readers, "(via "+og.Name()+") "+p.Name(rf))
							}
						}
					}
				}
			})
		}
		readers = uniq(readers)
		if len(readers) == 0 {
			r.Bad(rule, n, "no reader", p.Pos(g.Pos()), "option variable is stored by "+strings.Join(optWriters[n], ",")+" but no non-setter function loads it: the setter has no effect")
		} else {
			r.OK(rule, n, "readers", p.Pos(g.Pos()), "loaded by "+strings.Join(readers, ","))
		}
	}
}

// ---- OPT.setter ---------------------------------------------------------------------------------

// setterSpec: expected stored value of variable Var per argument-count class (0, 1, >=2) of the
// variadic parameter; for non-variadic setters only class index 0 is used.
type setterSpec struct {
	Fn, Var string
	Classes [3][]string // accepted patterns per class
	Doc     string
}

var setterSpecs = []setterSpec{
	{"mxj.CastNanInf", "mxj.castNanInf", tog3, "no argument toggles; one argument sets"},
	{"mxj.CastValuesToBool", "mxj.castToBool", tog3, "Repeated calls with no argument toggle; one argument sets"},
	{"mxj.CastValuesToFloat", "mxj.castToFloat", tog3, "same"},
	{"mxj.CastValuesToInt", "mxj.castToInt", tog3, "Repeated calls with no argument will toggle this on/off, or set with b"},
	{"mxj.CoerceKeysToLower", "mxj.lowerCase", tog3, "CoerceKeysToLower() will toggle; CoerceKeysToLower(true|false) will set"},
	{"mxj.CoerceKeysToSnakeCase", "mxj.snakeCaseKeys", tog3, "changes the default, false, to the specified value"},
	{"mxj.DecodeSimpleValuesAsMap", "mxj.decodeSimpleValuesAsMap", tog3, "If called with no argument, the decoding is toggled on/off"},
	{"mxj.HandleXMPPStreamTag", "mxj.handleXMPPStreamTag", tog3, "If called with no argument, handling is toggled on/off"},
	{"mxj.IncludeTagSeqNum", "mxj.includeTagSeqNum", tog3, "toggle / set"},
	{"mxj.XmlCheckIsValid", "mxj.xmlCheckIsValid", [3][]string{{"toggle"}, {"arg0"}, {"toggle"}}, "one argument sets, otherwise toggles"},
	{"mxj.LeafUseDotNotation", "mxj.useDotNotation", [3][]string{{"toggle"}, {"arg0"}, {"arg0"}}, "no argument toggles, else b[0]"},
	{"mxj.XMLEscapeCharsDecoder", "mxj.xmlEscapeCharsDecoder", [3][]string{{"toggle"}, {"arg0"}, {"arg0"}}, "no argument toggles, else b[0]"},
	{"mxj.DisableTrimWhiteSpace", "mxj.disableTrimWhiteSpace", [3][]string{{"const:true:bool"}, {"arg0"}, {"arg0"}}, "If no argument is provided, trim white space will be disabled"},
	{"mxj.SetFieldSeparator", "mxj.fieldSep", [3][]string{{`const:":":string`}, {`const:":":string`, "arg0"}, {`const:":":string`, "arg0"}}, "no argument or empty string resets to ':'"},
	{"mxj.SetAttrPrefix", "mxj.attrPrefix", [3][]string{{"param:s"}, nil, nil}, "changes the default to the specified value"},
	{"mxj.SetCheckTagToSkipFunc", "mxj.checkTagToSkip", [3][]string{{"param:fn"}, nil, nil}, "registers function"},
	{"mxj.XmlGoEmptyElemSyntax", "mxj.useGoXmlEmptyElemSyntax", [3][]string{{"const:true:bool"}, nil, nil}, "<tag></tag>"},
	{"mxj.XmlDefaultEmptyElemSyntax", "mxj.useGoXmlEmptyElemSyntax", [3][]string{{"const:false:bool"}, nil, nil}, "reverses XmlGoEmptyElemSyntax"},
}

var tog3 = [3][]string{{"toggle"}, {"arg0"}, {"same"}}

func ruleOptSetter(p *Prog, r *Report) {
	const rule = "OPT.setter"
	for _, sp := range setterSpecs {
		fn := p.Fn(sp.Fn)
		g := p.Globals[sp.Var]
		if fn == nil {
			r.Anchor(rule, sp.Fn)
			continue
		}
		if g == nil {
			r.Anchor(rule, sp.Var)
			continue
		}
		checkSetter(p, r, rule, fn, g, sp)
	}
	// PrependAttrWithHyphen / SetArraySize / SetGlobalKeyMapPrefix have their own shapes
	checkPrepend(p, r, rule)
	checkArraySize(p, r, rule)
	checkKeyPrefix(p, r, rule)
	r.Floor(rule, 20)
}

// ruleOptSetterFor checks only the setters of the named option variables (the options one property's behaviour is stated over).
func ruleOptSetterFor(vars []string) func(p *Prog, r *Report) {
	return func(p *Prog, r *Report) {
		const rule = "OPT.setter"
		want := map[string]bool{}
		for _, v := range vars {
			want[v] = true
		}
		for _, sp := range setterSpecs {
			if !want[sp.Var] {
				continue
			}
			fn := p.Fn(sp.Fn)
			g := p.Globals[sp.Var]
			if fn == nil {
				r.Anchor(rule, sp.Fn)
				continue
			}
			if g == nil {
				r.Anchor(rule, sp.Var)
				continue
			}
			checkSetter(p, r, rule, fn, g, sp)
		}
		if want["mxj.attrPrefix"] {
			checkPrepend(p, r, rule)
		}
		if want["mxj.defaultArraySize"] {
			checkArraySize(p, r, rule)
		}
		r.Floor(rule, len(vars))
	}
}

// lastStore returns the value last stored to g along the path (nil if none) and whether any store happened.
func lastStore(path cfgPath, g ssa.Value) (ssa.Value, *ssa.Store) {
	var val ssa.Value
	var st *ssa.Store
	for _, b := range path.Blocks {
		for _, in := range b.Instrs {
			if s, ok := in.(*ssa.Store); ok && s.Addr == g {
				val = s.Val
				st = s
			}
		}
	}
	if val != nil {
		val = phiValueOnPath(val, path.Blocks)
	}
	return val, st
}

// lenClassFeasible: are all conditions of the path that compare len(variadic) with a constant satisfied for n arguments?
func lenClassFeasible(cz *canonizer, path cfgPath, variadic *ssa.Parameter, n int64) bool {
	for _, c := range path.Conds {
		g := normGuard(c)
		bo, ok := g.Cond.(*ssa.BinOp)
		if !ok {
			continue
		}
		var lenSide, other ssa.Value
		flip := false
		if isLenOf(bo.X, variadic) {
			lenSide, other = bo.X, bo.Y
		} else if isLenOf(bo.Y, variadic) {
			lenSide, other = bo.Y, bo.X
			flip = true
		}
		if lenSide == nil {
			continue
		}
		k, ok := constInt(other)
		if !ok {
			continue
		}
		a, b := n, k
		if flip {
			a, b = k, n
		}
		var holds bool
		switch bo.Op {
		case token.EQL:
			holds = a == b
		case token.NEQ:
			holds = a != b
		case token.LSS:
			holds = a < b
		case token.LEQ:
			holds = a <= b
		case token.GTR:
			holds = a > b
		case token.GEQ:
			holds = a >= b
		default:
			continue
		}
		if holds != g.Pol {
			return false
		}
	}
	return true
}

func isLenOf(v ssa.Value, prm *ssa.Parameter) bool {
	c, ok := v.(*ssa.Call)
	if !ok {
		return false
	}
	b, ok := c.Call.Value.(*ssa.Builtin)
	return ok && b.Name() == "len" && len(c.Call.Args) == 1 && c.Call.Args[0] == ssa.Value(prm)
}

func variadicParam(fn *ssa.Function) *ssa.Parameter {
	if !fn.Signature.Variadic() || len(fn.Params) == 0 {
		return nil
	}
	return fn.Params[len(fn.Params)-1]
}

// matchPattern decides whether the value stored on this path matches an accepted pattern.
func matchPattern(cz *canonizer, pat string, val ssa.Value, path cfgPath, g *ssa.Global, variadic *ssa.Parameter) bool {
	return matchPatternT(cz, pat, val, path, g, variadic)
}

// matchPatternT: target is the option variable itself or, in a helper that the setter hands the variable's address to, the
// pointer parameter that stands for it.
func matchPatternT(cz *canonizer, pat string, val ssa.Value, path cfgPath, target ssa.Value, variadic *ssa.Parameter) bool {
	isLoad := func(v ssa.Value) bool {
		u, ok := v.(*ssa.UnOp)
		return ok && u.Op == token.MUL && u.X == target
	}
	return matchPatternV(cz, pat, val, path, isLoad, variadic)
}

// matchPatternV: isLoad recognises "the current value of the option" (a load of the variable, or the parameter of a helper that
// receives it).
func matchPatternV(cz *canonizer, pat string, val ssa.Value, path cfgPath, isLoad func(ssa.Value) bool, variadic *ssa.Parameter) bool {
	switch {
	case pat == "same":
		if val == nil {
			return true
		}
		return isLoad(val)
	case pat == "toggle":
		if val == nil {
			return false
		}
		if u, ok := val.(*ssa.UnOp); ok && u.Op == token.NOT && isLoad(u.X) {
			return true
		}
		// if x { x = false } else { x = true }
		if b, ok := constBool(val); ok {
			for _, c := range path.Conds {
				ng := normGuard(c)
				if isLoad(ng.Cond) && ng.Pol == !b {
					return true
				}
			}
		}
		return false
	case pat == "arg0":
		if val == nil || variadic == nil {
			return false
		}
		return cz.of(val) == "ld(&param:"+variadic.Name()+"[const:0:int])" || isLoadOfIndex0(val, variadic)
	case strings.HasPrefix(pat, "param:"):
		return val != nil && cz.of(val) == pat
	case strings.HasPrefix(pat, "const:"):
		return val != nil && cz.of(val) == pat
	}
	return false
}

func isLoadOfIndex0(v ssa.Value, prm *ssa.Parameter) bool {
	u, ok := v.(*ssa.UnOp)
	if !ok || u.Op != token.MUL {
		return false
	}
	ia, ok := u.X.(*ssa.IndexAddr)
	if !ok || ia.X != ssa.Value(prm) {
		return false
	}
	k, ok := constInt(ia.Index)
	return ok && k == 0
}

func checkSetter(p *Prog, r *Report, rule string, fn *ssa.Function, g *ssa.Global, sp setterSpec) {
	var target ssa.Value = g
	va := variadicParam(fn)
	// the optional-argument convention may live in a helper that gets the variable's address and the argument list
	direct := false
	eachInstr(fn, func(b *ssa.BasicBlock, in ssa.Instruction) {
		if st, ok := in.(*ssa.Store); ok && st.Addr == ssa.Value(g) {
			direct = true
		}
	})
	if !direct {
		var calls []*ssa.Call
		eachInstr(fn, func(b *ssa.BasicBlock, in ssa.Instruction) {
			if c, ok := in.(*ssa.Call); ok {
				for _, a := range c.Call.Args {
					if a == ssa.Value(g) {
						calls = append(calls, c)
					}
				}
			}
		})
		if len(calls) == 1 && len(fn.Blocks) == 1 {
			c := calls[0]
			if h := staticCallee(&c.Call); h != nil && p.InModule(h) && !p.Exported(h) && len(h.Blocks) > 0 {
				var tp, vp *ssa.Parameter
				for i, a := range c.Call.Args {
					if i >= len(h.Params) {
						continue
					}
					if a == ssa.Value(g) {
						tp = h.Params[i]
					}
					if va != nil && a == ssa.Value(va) {
						vp = h.Params[i]
					}
				}
				if tp != nil && (va == nil || vp != nil) {
					fn, target, va = h, tp, vp
				}
			}
		}
	}
	// … or in a helper that computes the new value from the current one and the argument list: g = h(g, b)
	if direct && len(fn.Blocks) == 1 && va != nil {
		var st *ssa.Store
		nst := 0
		eachInstr(fn, func(b *ssa.BasicBlock, in ssa.Instruction) {
			if s2, ok := in.(*ssa.Store); ok && s2.Addr == ssa.Value(g) {
				st = s2
				nst++
			}
		})
		if nst == 1 {
			if c, ok := st.Val.(*ssa.Call); ok {
				if h := staticCallee(&c.Call); h != nil && p.InModule(h) && !p.Exported(h) && len(h.Blocks) > 0 {
					var cur, vp *ssa.Parameter
					for i, a := range c.Call.Args {
						if i >= len(h.Params) {
							continue
						}
						if globalOf(a) == g {
							cur = h.Params[i]
						}
						if a == ssa.Value(va) {
							vp = h.Params[i]
						}
					}
					hpaths, hok := enumPaths(h, 4096)
					if cur != nil && vp != nil && hok {
						hcz := p.canonFor(h)
						isCur := func(v ssa.Value) bool { return v == ssa.Value(cur) }
						names := []string{"no argument", "one argument", "two arguments", "three arguments"}
						for ci, n := range []int64{0, 1, 2, 3} {
							idx := ci
							if idx > 2 {
								idx = 2
							}
							pats := sp.Classes[idx]
							construct := fmt.Sprintf("%s on %s", sp.Var, names[ci])
							feasible, okAll, why := 0, true, ""
							for _, path := range hpaths {
								if !lenClassFeasible(hcz, path, vp, n) {
									continue
								}
								last := path.Blocks[len(path.Blocks)-1]
								ret, isRet := last.Instrs[len(last.Instrs)-1].(*ssa.Return)
								if !isRet || len(ret.Results) != 1 {
									continue
								}
								feasible++
								rv := phiValueOnPath(ret.Results[0], path.Blocks)
								matched := false
								for _, pat := range pats {
									if pat == "same" && isCur(rv) {
										matched = true
									} else if pat != "same" && matchPatternV(hcz, pat, rv, path, isCur, vp) {
										matched = true
									}
								}
								if !matched {
									okAll = false
									why = fmt.Sprintf("documented: %s; expected one of %v, the helper %s yields %s", sp.Doc, pats, p.Name(h), hcz.of(rv))
								}
							}
							switch {
							case feasible == 0:
								r.Unknown(rule, sp.Fn, construct, p.Pos(fn.Pos()), "no feasible path for this argument count")
							case okAll:
								r.OK(rule, sp.Fn, construct, p.Pos(fn.Pos()), fmt.Sprintf("all %d feasible paths of %s return %v, and the result is stored", feasible, p.Name(h), pats))
							default:
								r.Bad(rule, sp.Fn, construct, p.Pos(fn.Pos()), why)
							}
						}
						return
					}
				}
			}
		}
	}
	cz := p.canonFor(fn)
	paths, ok := enumPaths(fn, 4096)
	if !ok {
		r.Unknown(rule, sp.Fn, "paths", p.Pos(fn.Pos()), "setter is not loop-free (or has too many paths): branch-refined reaching definitions not computed")
		return
	}
	classes := []int64{0}
	names := []string{"call"}
	if va != nil {
		classes = []int64{0, 1, 2, 3}
		names = []string{"no argument", "one argument", "two arguments", "three arguments"}
	}
	for ci, n := range classes {
		idx := ci
		if idx > 2 {
			idx = 2
		}
		pats := sp.Classes[idx]
		construct := fmt.Sprintf("%s on %s", sp.Var, names[ci])
		feasible := 0
		okAll := true
		var why string
		for _, path := range paths {
			if va != nil && !lenClassFeasible(cz, path, va, n) {
				continue
			}
			feasible++
			val, st := lastStore(path, target)
			matched := false
			for _, pat := range pats {
				if matchPatternT(cz, pat, val, path, target, va) {
					matched = true
					break
				}
			}
			if !matched && val != nil && va != nil {
				// g = h(g, b): the helper computes the new value from the current one and the argument list
				if c, isCall := val.(*ssa.Call); isCall {
					if h := staticCallee(&c.Call); h != nil && p.InModule(h) && !p.Exported(h) && len(h.Blocks) > 0 {
						var cur, vp *ssa.Parameter
						for i, a := range c.Call.Args {
							if i >= len(h.Params) {
								continue
							}
							if globalOf(a) == g {
								cur = h.Params[i]
							}
							if a == ssa.Value(va) {
								vp = h.Params[i]
							}
						}
						if hpaths, hok := enumPaths(h, 4096); cur != nil && vp != nil && hok {
							hcz := p.canonFor(h)
							isCur := func(v ssa.Value) bool { return v == ssa.Value(cur) }
							hf, hall := 0, true
							for _, hp := range hpaths {
								if !lenClassFeasible(hcz, hp, vp, n) {
									continue
								}
								last := hp.Blocks[len(hp.Blocks)-1]
								ret, isRet := last.Instrs[len(last.Instrs)-1].(*ssa.Return)
								if !isRet || len(ret.Results) != 1 {
									continue
								}
								hf++
								rv := phiValueOnPath(ret.Results[0], hp.Blocks)
								m := false
								for _, pat := range pats {
									if pat == "same" && isCur(rv) {
										m = true
									} else if pat != "same" && matchPatternV(hcz, pat, rv, hp, isCur, vp) {
										m = true
									}
								}
								if !m {
									hall = false
								}
							}
							if hf > 0 && hall {
								matched = true
							}
						}
					}
				}
			}
			if !matched {
				okAll = false
				got := "no store"
				if val != nil {
					got = "store of " + cz.of(val) + " at " + p.Pos(st.Pos())
				}
				why = fmt.Sprintf("documented: %s; expected one of %v, path yields %s", sp.Doc, pats, got)
			}
		}
		if feasible == 0 {
			r.Unknown(rule, sp.Fn, construct, p.Pos(fn.Pos()), "no feasible path for this argument count")
			continue
		}
		if okAll {
			r.OK(rule, sp.Fn, construct, p.Pos(fn.Pos()), fmt.Sprintf("all %d feasible paths store %v", feasible, pats))
		} else {
			r.Bad(rule, sp.Fn, construct, p.Pos(fn.Pos()), why)
		}
	}
}

// PrependAttrWithHyphen(v): attrPrefix = "-" on the v-true paths, "" otherwise.
func checkPrepend(p *Prog, r *Report, rule string) {
	fn := p.Fn("mxj.PrependAttrWithHyphen")
	g := p.Globals["mxj.attrPrefix"]
	if fn == nil || g == nil {
		r.Anchor(rule, "mxj.PrependAttrWithHyphen")
		return
	}
	cz := p.canonFor(fn)
	paths, ok := enumPaths(fn, 256)
	if !ok || len(fn.Params) != 1 {
		r.Unknown(rule, p.Name(fn), "paths", p.Pos(fn.Pos()), "unexpected shape")
		return
	}
	good := true
	why := ""
	for _, path := range paths {
		val, _ := lastStore(path, g)
		if val == nil {
			// delegated to SetAttrPrefix (whose own obligation is that it stores its argument)
			for _, b := range path.Blocks {
				for _, in := range b.Instrs {
					if c, ok := in.(*ssa.Call); ok {
						if h := staticCallee(&c.Call); h != nil && p.Name(h) == "mxj.SetAttrPrefix" && len(c.Call.Args) == 1 {
							val = c.Call.Args[0]
						}
					}
				}
			}
		}
		pol, found := false, false
		for _, c := range path.Conds {
			tv, tpol := boolTest(c)
			if tv == ssa.Value(fn.Params[0]) {
				pol, found = tpol, true
			}
		}
		if val == nil || !found {
			good, why = false, "a path does not store attrPrefix under a test of the argument"
			continue
		}
		s, isc := constString(val)
		if !isc || (pol && s != "-") || (!pol && s != "") {
			good, why = false, fmt.Sprintf("argument %v stores %s (documented: true => hyphen, false => no prefix)", pol, cz.of(val))
		}
	}
	if good {
		r.OK(rule, p.Name(fn), "mxj.attrPrefix on call", p.Pos(fn.Pos()), "true stores \"-\", false stores \"\"")
	} else {
		r.Bad(rule, p.Name(fn), "mxj.attrPrefix on call", p.Pos(fn.Pos()), why)
	}
}

// SetArraySize(size): defaultArraySize = size if size > minArraySize else minArraySize.
func checkArraySize(p *Prog, r *Report, rule string) {
	fn := p.Fn("mxj.SetArraySize")
	g := p.Globals["mxj.defaultArraySize"]
	if fn == nil || g == nil {
		r.Anchor(rule, "mxj.SetArraySize")
		return
	}
	paths, ok := enumPaths(fn, 256)
	if !ok || len(fn.Params) != 1 {
		r.Unknown(rule, p.Name(fn), "paths", p.Pos(fn.Pos()), "unexpected shape")
		return
	}
	good, why := true, ""
	for _, path := range paths {
		val, _ := lastStore(path, g)
		if val == nil {
			good, why = false, "a path leaves defaultArraySize unset"
			continue
		}
		if val == ssa.Value(fn.Params[0]) {
			// must be under size > c (c >= 1)
			okc := false
			for _, c := range path.Conds {
				ng := normGuard(c)
				if bo, ok := ng.Cond.(*ssa.BinOp); ok && bo.X == ssa.Value(fn.Params[0]) {
					if k, ok := constInt(bo.Y); ok && k >= 1 && ((bo.Op == token.GTR && ng.Pol) || (bo.Op == token.LEQ && !ng.Pol) || (bo.Op == token.GEQ && ng.Pol) || (bo.Op == token.LSS && !ng.Pol)) {
						okc = true
					}
				}
			}
			if !okc {
				good, why = false, "the argument is stored without a lower-bound test (buffers could be sized 0 or negative)"
			}
		} else if k, ok := constInt(val); !ok || k < 1 {
			good, why = false, "stored value is neither the argument nor a positive constant"
		}
	}
	if good {
		r.OK(rule, p.Name(fn), "mxj.defaultArraySize on call", p.Pos(fn.Pos()), "argument stored only above the minimum, else the minimum")
	} else {
		r.Bad(rule, p.Name(fn), "mxj.defaultArraySize on call", p.Pos(fn.Pos()), why)
	}
}

// SetGlobalKeyMapPrefix: each of the eight key variables receives, on every path, exactly one store whose
// value depends on the argument and on the old value of that same variable and of no other key variable.
func checkKeyPrefix(p *Prog, r *Report, rule string) {
	fn := p.Fn("mxj.SetGlobalKeyMapPrefix")
	if fn == nil {
		r.Anchor(rule, "mxj.SetGlobalKeyMapPrefix")
		return
	}
	keys := []string{"textK", "seqK", "commentK", "attrK", "directiveK", "procinstK", "targetK", "instK"}
	keyset := map[*ssa.Global]bool{}
	for _, k := range keys {
		if g := p.Globals["mxj."+k]; g != nil {
			keyset[g] = true
		} else {
			r.Anchor(rule, "mxj."+k)
		}
	}
	paths, ok := enumPaths(fn, 256)
	if !ok {
		r.Unknown(rule, p.Name(fn), "paths", p.Pos(fn.Pos()), "not loop-free")
		return
	}
	for _, k := range keys {
		g := p.Globals["mxj."+k]
		if g == nil {
			continue
		}
		good, why := true, ""
		for _, path := range paths {
			val, _ := lastStore(path, g)
			if val == nil {
				good, why = false, "a path leaves "+k+" unchanged while other keys are rewritten"
				continue
			}
			deps := dataDeps(val)
			if !deps.params[fn.Params[0]] {
				good, why = false, "stored value does not depend on the argument"
			}
			for dg := range deps.globals {
				if dg != g && keyset[dg] {
					good, why = false, "stored value of "+k+" is computed from "+dg.Name()
				}
			}
			if !deps.globals[g] {
				good, why = false, "stored value does not derive from the current "+k+" (suffix would be lost)"
			}
		}
		if good {
			r.OK(rule, p.Name(fn), "mxj."+k+" on call", p.Pos(fn.Pos()), "rewritten from its own old value and the argument only")
		} else {
			r.Bad(rule, p.Name(fn), "mxj."+k+" on call", p.Pos(fn.Pos()), why)
		}
	}
}

type depSet struct {
	params  map[*ssa.Parameter]bool
	globals map[*ssa.Global]bool
	calls   map[ssa.Value]bool
}

// dataDeps: backward data-dependence closure of a value inside its function (operands only).
func dataDeps(v ssa.Value) depSet {
	d := depSet{params: map[*ssa.Parameter]bool{}, globals: map[*ssa.Global]bool{}, calls: map[ssa.Value]bool{}}
	seen := map[ssa.Value]bool{}
	var rec func(v ssa.Value)
	rec = func(v ssa.Value) {
		if v == nil || seen[v] {
			return
		}
		seen[v] = true
		switch x := v.(type) {
		case *ssa.Parameter:
			d.params[x] = true
			return
		case *ssa.Global:
			d.globals[x] = true
			return
		case *ssa.Const, *ssa.Function, *ssa.Builtin:
			return
		case *ssa.Call:
			d.calls[x] = true
		}
		if in, ok := v.(ssa.Instruction); ok {
			for _, op := range in.Operands(nil) {
				if op != nil && *op != nil {
					rec(*op)
				}
			}
		}
	}
	rec(v)
	return d
}

// ---- OPT.excl ------------------------------------------------------------------------------------

// ruleOptExcl: encoder-side and decoder-side escaping are never both on.
//   - XMLEscapeChars stores true to xmlEscapeChars only on paths where xmlEscapeCharsDecoder was tested false;
//   - XMLEscapeCharsDecoder: on every path, after the last store to xmlEscapeCharsDecoder either
//     xmlEscapeChars is stored false, or a test shows one of the two false.
func ruleOptExcl(p *Prog, r *Report) {
	const rule = "OPT.excl"
	enc, dec := p.Globals["mxj.xmlEscapeChars"], p.Globals["mxj.xmlEscapeCharsDecoder"]
	f1, f2 := p.Fn("mxj.XMLEscapeChars"), p.Fn("mxj.XMLEscapeCharsDecoder")
	if enc == nil || dec == nil || f1 == nil || f2 == nil {
		r.Anchor(rule, "mxj.XMLEscapeChars/XMLEscapeCharsDecoder")
		return
	}
	condOn := func(cz *canonizer, g guard, name string) (isOn bool, ok bool) {
		// returns what the guard says about variable name: (value known, true)
		ng := normGuard(g)
		s := cz.of(ng.Cond)
		ld := "load(" + name + ")"
		switch s {
		case ld:
			return ng.Pol, true
		case "(" + ld + " == const:true:bool)":
			return ng.Pol, true
		case "(" + ld + " == const:false:bool)":
			return !ng.Pol, true
		case "(" + ld + " != const:true:bool)":
			return !ng.Pol, true
		case "(" + ld + " != const:false:bool)":
			return ng.Pol, true
		}
		return false, false
	}
	// XMLEscapeChars
	{
		cz := p.canonFor(f1)
		paths, ok := enumPaths(f1, 1024)
		if !ok {
			r.Unknown(rule, p.Name(f1), "paths", p.Pos(f1.Pos()), "not loop-free")
		} else {
			good, why := true, ""
			for _, path := range paths {
				val, st := lastStore(path, enc)
				if val == nil {
					continue
				}
				if b, isc := constBool(val); isc && !b {
					continue
				}
				if cz.of(val) == "!(load(mxj.xmlEscapeCharsDecoder))" {
					continue // true exactly when decoder-side escaping is off
				}
				// storing true or a non-constant: decoder flag must be known false on this path
				safe := false
				for _, c := range path.Conds {
					if on, ok := condOn(cz, c, "mxj.xmlEscapeCharsDecoder"); ok && !on {
						safe = true
					}
				}
				if lv, _ := lastStore(path, dec); lv != nil {
					if b, isc := constBool(lv); isc && !b {
						safe = true
					}
				}
				if !safe {
					good, why = false, "xmlEscapeChars may become true at "+p.Pos(st.Pos())+" while xmlEscapeCharsDecoder is not known to be false"
				}
			}
			if good {
				r.OK(rule, p.Name(f1), "enable only when decoder-side escaping is off", p.Pos(f1.Pos()), fmt.Sprintf("%d paths", len(paths)))
			} else {
				r.Bad(rule, p.Name(f1), "enable only when decoder-side escaping is off", p.Pos(f1.Pos()), why)
			}
		}
	}
	// XMLEscapeCharsDecoder
	{
		cz := p.canonFor(f2)
		paths, ok := enumPaths(f2, 1024)
		if !ok {
			r.Unknown(rule, p.Name(f2), "paths", p.Pos(f2.Pos()), "not loop-free")
		} else {
			good, why := true, ""
			for _, path := range paths {
				// position of last store to dec on the path
				lastDec := -1
				pos := 0
				encFalseAfter := false
				testAfter := false
				for _, b := range path.Blocks {
					for _, in := range b.Instrs {
						pos++
						if s, ok := in.(*ssa.Store); ok {
							if s.Addr == ssa.Value(dec) {
								lastDec = pos
								encFalseAfter, testAfter = false, false
							}
							if s.Addr == ssa.Value(enc) {
								if bv, isc := constBool(s.Val); isc && !bv {
									encFalseAfter = true
								} else {
									encFalseAfter = false
								}
							}
						}
						if ifi, ok := in.(*ssa.If); ok {
							// which edge does the path take?
							var taken *guard
							for i := range path.Conds {
								if path.Conds[i].Cond == ifi.Cond {
									taken = &path.Conds[i]
								}
							}
							if taken != nil && pos > lastDec {
								if on, ok := condOn(cz, *taken, "mxj.xmlEscapeCharsDecoder"); ok && !on {
									testAfter = true
								}
								if on, ok := condOn(cz, *taken, "mxj.xmlEscapeChars"); ok && !on {
									testAfter = true
								}
							}
						}
					}
				}
				if lastDec < 0 {
					continue // decoder flag untouched on this path
				}
				if lv, lst := lastStore(path, dec); lv != nil {
					if b, isc := constBool(lv); isc && !b {
						continue
					}
					// the value stored is tested on this path and found false (escape := …; flag = escape; if escape { … })
					storedFalse := false
					for _, c := range path.Conds {
						if tv, val := boolTest(c); !val && lst != nil && (tv == lst.Val || tv == lv) {
							storedFalse = true
						}
					}
					if storedFalse {
						continue
					}
				}
				if !encFalseAfter && !testAfter {
					good, why = false, "a path sets xmlEscapeCharsDecoder and returns without clearing xmlEscapeChars or testing that one of them is off"
				}
			}
			if good {
				r.OK(rule, p.Name(f2), "decoder-side on clears encoder-side", p.Pos(f2.Pos()), fmt.Sprintf("%d paths", len(paths)))
			} else {
				r.Bad(rule, p.Name(f2), "decoder-side on clears encoder-side", p.Pos(f2.Pos()), why)
			}
		}
	}
	// no other writer may set either flag (OPT.writers) — restated as an obligation so that C05 carries it
	w := p.globalWriters()
	for _, g := range []*ssa.Global{enc, dec} {
		ok := true
		for f := range w[g] {
			if !isPkgInit(f) && f != f1 && f != f2 {
				ok = false
				r.Bad(rule, p.Name(f), "store "+g.Name(), p.Pos(f.Pos()), "escaping switch written outside the coupled setters")
			}
		}
		if ok {
			r.OK(rule, "mxj."+g.Name(), "writers", p.Pos(g.Pos()), "only the coupled setters store")
		}
	}
}

// ---- PAIR.derived -----------------------------------------------------------------------------------

// rulePairDerived: lenAttrPrefix tracks attrPrefix; trimRunes tracks disableTrimWhiteSpace.
func rulePairDerived(p *Prog, r *Report) {
	const rule = "PAIR.derived"
	ap, lp := p.Globals["mxj.attrPrefix"], p.Globals["mxj.lenAttrPrefix"]
	if ap == nil || lp == nil {
		r.Anchor(rule, "mxj.attrPrefix/lenAttrPrefix")
	} else {
		for _, f := range p.allFuncsWithInit() {
			for _, b := range f.Blocks {
				for i, in := range b.Instrs {
					st, ok := in.(*ssa.Store)
					if !ok {
						continue
					}
					if st.Addr == ssa.Value(ap) && !isPkgInit(f) {
						// find a following store to lenAttrPrefix in the same block, before any return, with value len(<stored value or reload>)
						found := false
						for _, in2 := range b.Instrs[i+1:] {
							if s2, ok := in2.(*ssa.Store); ok {
								if s2.Addr == ssa.Value(ap) {
									break
								}
								if s2.Addr == ssa.Value(lp) && isLenOfValueOrReload(s2.Val, st.Val, ap) {
									found = true
									break
								}
							}
						}
						c := "store attrPrefix"
						if s, ok := constString(st.Val); ok {
							c = fmt.Sprintf("store attrPrefix=%q", s)
						}
						if found {
							r.OK(rule, p.Name(f), c, p.Pos(st.Pos()), "followed in the same block by lenAttrPrefix = len(attrPrefix)")
						} else {
							r.Bad(rule, p.Name(f), c, p.Pos(st.Pos()), "attrPrefix is stored without the paired lenAttrPrefix = len(attrPrefix): encoder prefix test and decoder prefix desynchronise")
						}
					}
					if st.Addr == ssa.Value(lp) {
						// every store to lenAttrPrefix is len(attrPrefix) of the current value
						okv := false
						if c, ok := st.Val.(*ssa.Call); ok {
							if bi, ok := c.Call.Value.(*ssa.Builtin); ok && bi.Name() == "len" {
								if globalOf(c.Call.Args[0]) == ap {
									okv = true
									// the load must not be older than a store to attrPrefix that precedes this store in the block
									if ld, isIn := c.Call.Args[0].(ssa.Instruction); isIn && ld.Block() == b {
										for j := indexIn(ld) + 1; j < i; j++ {
											if s0, ok := b.Instrs[j].(*ssa.Store); ok && s0.Addr == ssa.Value(ap) {
												okv = false
											}
										}
									}
								}
								// or len of the value most recently stored to attrPrefix in this block
								for j := i - 1; j >= 0; j-- {
									if s0, ok := b.Instrs[j].(*ssa.Store); ok && s0.Addr == ssa.Value(ap) {
										if s0.Val == c.Call.Args[0] {
											okv = true
										}
										break
									}
								}
							}
						}
						if isPkgInit(f) {
							okv = true // initialiser: checked below against the initial constant
						}
						if okv {
							r.OK(rule, p.Name(f), "store lenAttrPrefix", p.Pos(st.Pos()), "value is len(attrPrefix)")
						} else {
							r.Bad(rule, p.Name(f), "store lenAttrPrefix", p.Pos(st.Pos()), "lenAttrPrefix stored with something other than len(attrPrefix)")
						}
					}
				}
			}
		}
		// initial values agree
		initLen, initStr, haveL, haveS := int64(0), "", false, false
		for _, pk := range []string{"mxj"} {
			ini := p.SPkgs[pk].Func("init")
			eachInstr(ini, func(b *ssa.BasicBlock, in ssa.Instruction) {
				if st, ok := in.(*ssa.Store); ok {
					if st.Addr == ssa.Value(ap) {
						initStr, haveS = constString(st.Val)
					}
					if st.Addr == ssa.Value(lp) {
						initLen, haveL = constInt(st.Val)
					}
				}
			})
		}
		if haveL && haveS && int64(len(initStr)) == initLen {
			r.OK(rule, "mxj.init", "initial lenAttrPrefix", p.Pos(lp.Pos()), fmt.Sprintf("len(%q) == %d", initStr, initLen))
		} else {
			r.Bad(rule, "mxj.init", "initial lenAttrPrefix", p.Pos(lp.Pos()), fmt.Sprintf("initial attrPrefix %q (const=%v) and lenAttrPrefix %d (const=%v) disagree", initStr, haveS, initLen, haveL))
		}
	}
	// trimRunes
	dt, tr := p.Globals["mxj.disableTrimWhiteSpace"], p.Globals["mxj.trimRunes"]
	fn := p.Fn("mxj.DisableTrimWhiteSpace")
	if dt != nil && tr == nil && fn != nil {
		r.OK(rule, p.Name(fn), "mxj.trimRunes follows the flag", p.Pos(fn.Pos()), "there is no derived cut-set variable: the cut set is computed from the flag where it is used")
		return
	}
	if dt == nil || tr == nil || fn == nil {
		r.Anchor(rule, "mxj.DisableTrimWhiteSpace")
		return
	}
	cz := p.canonFor(fn)
	paths, ok := enumPaths(fn, 1024)
	if !ok {
		r.Unknown(rule, p.Name(fn), "paths", p.Pos(fn.Pos()), "not loop-free")
		return
	}
	good, why := true, ""
	for _, path := range paths {
		val, st := lastStore(path, tr)
		if val == nil {
			good, why = false, "a path changes disableTrimWhiteSpace without recomputing trimRunes"
			continue
		}
		s, isc := constStringOnPath(val, path.Blocks)
		if !isc {
			good, why = false, "trimRunes stored with a non-constant"
			continue
		}
		// the test of the flag taken on this path must come after the last store to the flag
		var flagStore *ssa.Store
		_, flagStore = lastStore(path, dt)
		pol, found := false, false
		for _, c := range path.Conds {
			tv, tpol := boolTest(c)
			ng := guard{tv, tpol}
			if cz.of(ng.Cond) != "load(mxj.disableTrimWhiteSpace)" && globalOf(ng.Cond) != dt {
				continue
			}
			ld, isLd := ng.Cond.(*ssa.UnOp)
			if !isLd {
				continue
			}
			if flagStore != nil && !(flagStore.Block() == ld.Block() && indexIn(flagStore) < indexIn(ld)) && !flagStore.Block().Dominates(ld.Block()) {
				// the load may precede the store on this path: check order on the path
				if !before(path, flagStore, ld) {
					continue
				}
			}
			pol, found = ng.Pol, true
		}
		if !found {
			good, why = false, "trimRunes stored at "+p.Pos(st.Pos())+" without testing the flag just stored"
			continue
		}
		hasBlank := strings.Contains(s, " ")
		if pol == hasBlank {
			good, why = false, fmt.Sprintf("disableTrimWhiteSpace==%v selects trim set %q (blank must be trimmed exactly when trimming is enabled)", pol, s)
		}
	}
	if good {
		r.OK(rule, p.Name(fn), "trimRunes follows disableTrimWhiteSpace", p.Pos(fn.Pos()), fmt.Sprintf("%d paths: blank in the trim set iff trimming enabled", len(paths)))
	} else {
		r.Bad(rule, p.Name(fn), "trimRunes follows disableTrimWhiteSpace", p.Pos(fn.Pos()), why)
	}
}

// constStringOnPath: the constant a string expression denotes on one path: constants, phis resolved along the path, and
// concatenations of such.
func constStringOnPath(v ssa.Value, path []*ssa.BasicBlock) (string, bool) {
	v = phiValueOnPath(v, path)
	if s, ok := constString(v); ok {
		return s, true
	}
	if bo, ok := v.(*ssa.BinOp); ok && bo.Op == token.ADD {
		a, ok1 := constStringOnPath(bo.X, path)
		b, ok2 := constStringOnPath(bo.Y, path)
		if ok1 && ok2 {
			return a + b, true
		}
	}
	return "", false
}

func indexIn(in ssa.Instruction) int {
	for i, x := range in.Block().Instrs {
		if x == in {
			return i
		}
	}
	return -1
}

func before(path cfgPath, a, b ssa.Instruction) bool {
	seenA := false
	for _, blk := range path.Blocks {
		for _, in := range blk.Instrs {
			if in == a {
				seenA = true
			}
			if in == b {
				return seenA
			}
		}
	}
	return false
}

func isLenOfValueOrReload(v, stored ssa.Value, g *ssa.Global) bool {
	c, ok := v.(*ssa.Call)
	if !ok {
		return false
	}
	bi, ok := c.Call.Value.(*ssa.Builtin)
	if !ok || bi.Name() != "len" {
		return false
	}
	a := c.Call.Args[0]
	if a == stored {
		return true
	}
	if globalOf(a) != g {
		return false
	}
	// a re-load of the variable: it must read what was just stored, i.e. no store to the variable lies between the load and its use
	// in the same block (in `x, n = s, len(x)` the right-hand side is evaluated first: the load sees the old value)
	ld, ok := a.(ssa.Instruction)
	if !ok {
		return false
	}
	for _, in := range ld.Block().Instrs[indexIn(ld):] {
		if st, ok := in.(*ssa.Store); ok && st.Addr == ssa.Value(g) {
			if indexIn(st) < indexIn(c) || c.Block() != ld.Block() {
				return false
			}
		}
		if in == ssa.Instruction(c) {
			break
		}
	}
	return true
}

// ---- OPT.scope -----------------------------------------------------------------------------------------

// optScope: per API group, option variables its reachable functions must NOT load (documented non-effects).
type scopeSpec struct {
	Group  string
	Roots  []string
	Forbid []string
	Doc    string
}

var decoderOnly = []string{"mxj.lowerCase", "mxj.snakeCaseKeys", "mxj.decodeSimpleValuesAsMap", "mxj.includeTagSeqNum",
	"mxj.handleXMPPStreamTag", "mxj.trimRunes", "mxj.disableTrimWhiteSpace", "mxj.xmlEscapeCharsDecoder", "mxj.castNanInf",
	"mxj.castToBool", "mxj.castToFloat", "mxj.castToInt", "mxj.checkTagToSkip"}
var encoderOnly = []string{"mxj.xmlEscapeChars", "mxj.xmlCheckIsValid", "mxj.useGoXmlEmptyElemSyntax"}
var attrOpts = []string{"mxj.attrPrefix", "mxj.lenAttrPrefix", "mxj.lowerCase"}

func scopeSpecs() []scopeSpec {
	return []scopeSpec{
		{"SeqDecode", grpSeqDecode, concat(attrOpts, encoderOnly, []string{"mxj.useDotNotation", "mxj.fieldSep", "mxj.defaultArraySize", "mxj.decodeSimpleValuesAsMap", "mxj.includeTagSeqNum"}),
			"PrependAttrWithHyphen/SetAttrPrefix: not applicable to NewMapXmlSeq; CoerceKeysToLower is NOT recognized; encoder switches do not affect decoding"},
		{"SeqEncode", []string{"mxj.MapSeq.Xml", "mxj.MapSeq.XmlWriter"}, concat(attrOpts, decoderOnly, []string{"mxj.useDotNotation", "mxj.fieldSep", "mxj.defaultArraySize"}),
			"attribute prefix and case folding do not affect the sequence codec; decoder options do not affect encoding"},
		{"SeqEncodeIndent", []string{"mxj.MapSeq.XmlIndent", "mxj.MapSeq.XmlIndentWriter"}, concat([]string{"mxj.useDotNotation", "mxj.fieldSep", "mxj.defaultArraySize"}),
			"query options do not affect encoding (the validity switch of XmlIndent decodes its own output, see OPT.scope.validity)"},
		{"MapDecode", []string{"mxj.NewMapXml", "mxj.NewMapXmlReader", "mxj.NewMapXmlReaderRaw", "mxj.HandleXmlReader", "mxj.HandleXmlReaderRaw"},
			concat(encoderOnly, []string{"mxj.useDotNotation", "mxj.fieldSep", "mxj.defaultArraySize", "mxj.seqK", "mxj.commentK", "mxj.directiveK", "mxj.procinstK", "mxj.targetK", "mxj.instK", "mxj.attrK"}),
			"encoder switches do not affect decoding"},
		{"MapEncode", []string{"mxj.Map.Xml", "mxj.Map.XmlIndent", "mxj.Map.XmlWriter", "mxj.Map.XmlIndentWriter", "mxj.Maps.XmlString", "mxj.Maps.XmlStringIndent", "mxj.AnyXml", "mxj.AnyXmlIndent"},
			concat(decoderOnly, []string{"mxj.useDotNotation", "mxj.fieldSep", "mxj.defaultArraySize"}),
			"decoder options do not affect encoding"},
		{"Json", concat(grpJsonEncode, []string{"mxj.NewMapJson", "mxj.NewMapJsonReader", "mxj.NewMapJsonReaderRaw", "mxj.HandleJsonReader", "mxj.HandleJsonReaderRaw"}),
			concat(attrOpts, decoderOnly, encoderOnly, []string{"mxj.useDotNotation", "mxj.fieldSep", "mxj.defaultArraySize", "mxj.textK", "mxj.seqK", "mxj.attrK", "mxj.commentK"}),
			"attribute prefix and case folding do not affect JSON; no XML option does"},
		{"Query", []string{"mxj.Map.ValuesForKey", "mxj.Map.ValueForKey", "mxj.Map.ValuesForPath", "mxj.Map.ValueForPath", "mxj.Map.ValueForPathString", "mxj.Map.Exists", "mxj.Map.PathsForKey", "mxj.Map.PathForKeyShortest", "mxj.Map.UpdateValuesForPath", "mxj.Map.SetValueForPath", "mxj.Map.Remove", "mxj.Map.RenameKey", "mxj.Map.NewMap"},
			concat(decoderOnly, encoderOnly, []string{"mxj.useDotNotation", "mxj.attrPrefix", "mxj.lenAttrPrefix", "mxj.textK", "mxj.seqK", "mxj.attrK"}),
			"codec options do not affect path/key queries"},
		{"Gob", grpGob, concat(attrOpts, decoderOnly, encoderOnly, []string{"mxj.useDotNotation", "mxj.fieldSep", "mxj.defaultArraySize", "mxj.textK", "mxj.seqK", "mxj.attrK", "mxj.commentK", "mxj.JsonUseNumber"}),
			"no option affects the gob encoding of a Map"},
		{"Leaf", grpLeaf, concat(decoderOnly, encoderOnly, []string{"mxj.fieldSep", "mxj.defaultArraySize", "mxj.lenAttrPrefix", "mxj.seqK", "mxj.attrK"}),
			"codec options do not affect LeafNodes"},
	}
}

func ruleOptScope(p *Prog, r *Report, groups ...string) {
	const rule = "OPT.scope"
	want := map[string]bool{}
	for _, g := range groups {
		want[g] = true
	}
	for _, sp := range scopeSpecs() {
		if len(want) > 0 && !want[sp.Group] {
			continue
		}
		roots := p.resolve(r, rule, sp.Roots...)
		reach := p.Reach(roots...)
		for _, vn := range sp.Forbid {
			g := p.Globals[vn]
			if g == nil {
				if !derivedOptionVar[vn] {
					r.Anchor(rule, vn)
				}
				continue
			}
			var offenders []string
			var firstPos token.Pos
			var firstFn *ssa.Function
			for f := range reach {
				if !p.InModule(f) {
					continue
				}
				eachInstr(f, func(b *ssa.BasicBlock, in ssa.Instruction) {
					if globalOfInstr(in) == g {
						offenders = append(offenders, p.Name(f))
						if firstFn == nil {
							firstFn, firstPos = f, in.Pos()
						}
					}
				})
			}
			c := sp.Group + " does not read " + vn
			if len(offenders) == 0 {
				r.OK(rule, sp.Group, c, "", fmt.Sprintf("no load in the %d functions reachable from the group", countModule(p, reach)))
				continue
			}
			var path []string
			for _, root := range roots {
				if pp := p.ReachPath(root, firstFn); pp != nil {
					path = pp
					break
				}
			}
			r.Bad(rule, sp.Group, c, p.Pos(firstPos), "documented: "+sp.Doc+"; but "+vn+" is loaded in "+strings.Join(uniq(offenders), ","), strings.Join(path, " -> "))
		}
	}
}

func countModule(p *Prog, m map[*ssa.Function]bool) int {
	n := 0
	for f := range m {
		if p.InModule(f) {
			n++
		}
	}
	return n
}

func uniq(s []string) []string {
	sort.Strings(s)
	var out []string
	for i, x := range s {
		if i == 0 || x != s[i-1] {
			out = append(out, x)
		}
	}
	return out
}

var _ = types.Typ

// derivedOptionVar: package variables that only cache something computable from an option proper; a tree that computes the value
// where it is needed has no such variable, and no rule is owed for it.
var derivedOptionVar = map[string]bool{"mxj.trimRunes": true, "mxj.lenAttrPrefix": true}
